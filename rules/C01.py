"""C01 — Drift detection: a changed block forces its linked blocks to change.

Decided (necessary conditions, on every path): a LineChange's line is in new-file coordinates;
every ordered search over line changes / ranges has a monotone predicate (finite-model check);
the deleted-line queue is FIFO and is flushed at the end of every hunk; character indices of the
intra-line diff are converted to byte offsets before they are compared with byte columns; only
content-modified blocks are collected and checked; the (file, name) keys inserted and looked up have
the same shape and an empty file part falls back to the modified block's own file; one push per
missing reference; no state carried between files other than the index of modified blocks; the diff's
target path loses exactly one `b/`; no swallowed error;
the overlap test of a line change with a block's spans on a small model (C01.span, 432 concrete cases per method).
Not decided: that the diff parser's line changes are the right ones for every edit script (the unidiff parser).
"""
import re

from engine.cfg import cfg_of
from engine.expr import render, walk, find_calls
from engine.facts import callee_name, callee_matches
from engine import prov as P
from engine import ordsearch as O
from rules import shared, util

SRC_FIELDS = ("source_line_no", "source_start", "source_length")
TGT_FIELDS = ("target_line_no", "target_start", "target_length")


def diff_bodies(ctx):
    return [b for b in ctx.reachable_bodies() if b.id.startswith("blockwatch::diff_parser::")]


def check_coord(ctx, out, rule="C01.coord"):
    n = 0
    samples = []
    for b in ctx.reachable_bodies():
        for bi, j, s in b.assigns():
            rv = s["rv"]
            if rv["k"] == "agg" and rv.get("agg") == "adt" and rv.get("path") == "blockwatch::diff_parser::LineChange":
                idx = rv["fields"].index("line")
                labs = ctx.prov.read_operand(b, rv["ops"][idx])
                src = any(any(f in l[2] for f in SRC_FIELDS) for l in labs)
                tgt = any(any(f in l[2] for f in TGT_FIELDS) for l in labs)
                n += 1
                samples.append("%s <- %s" % (ctx.where(b, s["span"]), "target" if tgt else ("source" if src else "?")))
                if src and not tgt:
                    # keyed by the construct, not by the function it currently lives in: a LineChange
                    # built from an element of the deleted-lines queue, or directly from a hunk line
                    via = "deleted-line-queue" if any(l[0] == "call" and "VecDeque" in l[1] for l in labs) else "direct"
                    out.viol(rule, "%s|%s|LineChange.line<-source-only|%s" % (rule, (s.get("span") or {}).get("file") or b.id, via), ctx.where(b, s["span"]),
                             "a LineChange is recorded at an OLD-file line number (%s): block spans are in new-file coordinates, so after earlier insertions/deletions the change is attributed to the wrong lines" % util.origins_text({l for l in labs if any(f in l[2] for f in SRC_FIELDS)}, 3))
                elif not tgt:
                    out.viol(rule, "%s|%s|LineChange.line<-unknown" % (rule, b.id), ctx.where(b, s["span"]),
                             "a LineChange's line derives from [%s], not from a new-file line number of the diff" % util.origins_text(labs, 4))
    out.inst(rule, n, 1, samples, note="every construction of a LineChange (3 on the pinned tree)")


def check_skipfile(ctx, out, rule="C01.skipfile"):
    """Every file section of the diff contributes its line changes, except sections that delete the
    whole file: in the loop over the PatchSet, the `insert` into the result is control-dependent only
    on unidiff's own `is_removed_file()` being false (helpers are looked through by inlining)."""
    n = 0
    cands = []
    for b0 in diff_bodies(ctx):
        if b0.promoted is not None or b0.coroutine or not any(callee_matches(t, r"unidiff::PatchSet as std::(str::FromStr|iter::IntoIterator)>") for bi, t in b0.calls()):
            continue
        b = ctx.inl(b0)
        cfg = cfg_of(b)
        loops = [(h, blocks, nb) for h, blocks, nb in util.loop_of_next(ctx, b, r"PatchSet|PatchedFile") if "PatchedFile" in (b.blocks[nb]["term"].get("arg_tys") or [""])[0] or True]
        ins = [(bi, t) for bi, t in b.calls() if callee_matches(t, r"HashMap::<K, V, S, A>::(insert|entry)$")
               and re.search(r"LineChange", " ".join(t.get("arg_tys") or []))]
        if not loops:
            # pipeline shape: `patch_set.into_iter().filter(|f| !f.is_removed_file()).map(..).collect()`
            for bi, t in b.calls():
                if callee_matches(t, r"Iterator>?::collect$") and re.search(r"HashMap<std::path::PathBuf, std::vec::Vec<blockwatch::diff_parser::LineChange>", t.get("dest_ty") or ""):
                    cands.append(b0.id)
                    e = ctx.expr(b).operand(t["args"][0])
                    calls = [c for c in walk(e) if c[0] == "call"]
                    ok = any(re.search(r"unidiff::PatchSet as std::iter::IntoIterator>::into_iter$", c[1]) for c in calls)
                    for c in calls:
                        nm = c[1].split("::")[-1]
                        if re.search(r"Iterator>?::filter$", c[1]):
                            clo = [a for a in c[2] if a[0] == "agg" and a[1].startswith("closure:")]
                            fb = ctx.facts.body(clo[0][1][8:]) if clo else None
                            fe = ctx.expr(ctx.inl(fb, skip=ctx.domain_api, tag="domain", sugar=True)).local(0) if fb is not None else None
                            if not (fe and fe[0] == "un" and fe[1] == "Not" and fe[2][0] == "call" and fe[2][1] == "unidiff::PatchedFile::is_removed_file"):
                                ok = False
                                out.viol(rule, "%s|extra-skip" % rule, ctx.where(b0, t["span"]),
                                         "file sections of the diff are filtered by `%s`: only sections that delete the whole file (unidiff's `is_removed_file()`) may be left out" % (render(fe, 140) if fe else "?"))
                        elif re.search(r"Iterator>?::(filter_map|flat_map|skip|take|step_by|skip_while|take_while|map_while)$", c[1]):
                            ok = False
                            out.viol(rule, "%s|extra-skip" % rule, ctx.where(b0, t["span"]), "file sections of the diff pass through `%s` before being collected" % nm)
                    if ok:
                        n += 1
            continue
        cands.append(b0.id)
        h, blocks, nb = loops[0]
        region = util.iter_region(b, nb) | set(blocks)
        ins = [(bi, t) for bi, t in ins if bi in region]
        if len(ins) != 1:
            out.viol(rule, "%s|insert-count" % rule, ctx.where(b0), "expected one insertion of a file's line changes per file section, found %d" % len(ins))
            continue
        ibi, it = ins[0]
        ok = True
        seen_removed = False
        for br, vals, e in util.guards(ctx, b, ibi):
            if br not in region:
                continue
            txt = render(e, 200)
            if e[0] == "call" and re.search(r"^unidiff::PatchedFile::is_removed_file$", e[1]):
                if vals == {0}:
                    seen_removed = True
                else:
                    ok = False
                    out.viol(rule, "%s|polarity" % rule, ctx.where(b0, it["span"]), "line changes are recorded only for REMOVED files")
                continue
            if e[0] == "discr" and re.search(r"Iterator>?::next\(", txt):
                continue
            ok = False
            out.viol(rule, "%s|extra-skip" % rule, ctx.where(b0, b.blocks[br]["term"].get("span")),
                     "a file section of the diff is skipped under `%s` (arm %s): only sections that delete the whole file (unidiff's `is_removed_file()`) may be left out; a modified file skipped here is never parsed, so neither its changed blocks nor its unbalanced tags are reported" % (txt[:140], sorted(map(str, vals))))
        if ok:
            n += 1
    out.inst(rule, n, 1, cands)


def check_linekind(ctx, out, rule="C01.linekind"):
    """unidiff knows four kinds of hunk lines: added, removed, context and the `\\ No newline at end of file`
    marker. Inside the per-line loop, everything done to the queue of pending deleted lines happens under a
    *positive* test of the line's kind (`is_added()` / `is_removed()` / `is_context()` holds) - never merely
    because the other tests failed: a catch-all `else` makes the marker line, which git puts between the `-`
    and the `+` of a rewritten last line, flush the pending deletion, so that one modified line is recorded
    as a deletion plus an addition."""
    n = 0
    KIND = r"^unidiff::Line::is_(added|removed|context)$"
    for b0 in diff_bodies(ctx):
        if b0.kind == "Closure":
            continue
        # (the kind tests may sit in a `visit(line)` method of a collector: read where the loop is, helpers inlined)
        for b in (ctx.inl(b0, skip=ctx.domain_api, tag="domain", sugar=True),):
            cfg = cfg_of(b)
            kinds = [bi for bi, t in b.calls() if callee_matches(t, KIND)]
            if not kinds:
                continue
            # the per-line loop: the most deeply nested loop in which a kind test is made (the end-of-hunk flush,
            # one level up, may ask what kind the *previous* line was)
            deep = max(kinds, key=lambda x: len(cfg.loops_containing(x)))
            lh = cfg.innermost_loop(deep)
            if lh is None:
                continue
            lblocks = set(cfg.loops()[lh])
            queues = {l for l, loc in enumerate(b.locals) if "VecDeque<&" in (loc.get("ty") or "") and "unidiff::Line" in (loc.get("ty") or "")}
            for bi, t in b.calls():
                if bi not in lblocks or cfg.innermost_loop(bi) != lh or not t["args"]:
                    continue
                # (wherever the queue lives - a local, a field of a collector struct: its own mutating methods)
                touches = re.search(r"VecDeque::<T, A>::(push_back|push_front|pop_front|pop_back|clear|drain|truncate|retain|append|extend)$", t.get("def") or "") is not None
                if not touches:
                    continue
                gs = util.guards(ctx, b, bi)
                pos = [g for g in gs if g[2][0] == "call" and re.search(KIND, g[2][1]) and 0 not in g[1]]
                if pos:
                    n += 1
                else:
                    out.viol(rule, "%s|%s|%s" % (rule, b0.id, callee_name(t).split("::")[-1]), ctx.where(b, t["span"]),
                             "inside the per-line loop `%s` changes the queue of pending deleted lines without a positive test of the line's kind (guards: %s): the `\\ No newline at end of file` marker, which is neither added, removed nor context, takes this branch too" % (
                                 callee_name(t).split("::")[-1], [render(g[2], 60) for g in gs[:3]]))
    out.inst(rule, n, 2, ["pop_front under is_added, push_back under is_removed, flush under is_context"])


def check_queue(ctx, out):
    """FIFO discipline of the deleted-line queue and flush at every hunk end."""
    n = 0
    allowed = {"new", "push_back", "pop_front", "front", "clear", "is_empty", "len", "with_capacity"}     # `front` reads the oldest element: first-with-first is kept
    bad = []
    qn = 0
    for b in diff_bodies(ctx):
        for bi, t in b.calls():
            tys = t.get("arg_tys") or []
            d = t.get("def") or ""
            if "VecDeque" in d:
                qn += 1
                nm = d.split("::")[-1]
                if nm == "drain" and ((t.get("arg_tys") or ["", ""]) + [""])[1] == "std::ops::RangeFull":
                    continue        # drains the whole queue front to back: FIFO order kept
                if nm not in allowed:
                    bad.append((b, t, nm))
    for b, t, nm in bad:
        out.viol("C01.fifo", "C01.fifo|%s|%s" % (b.id, nm), ctx.where(b, t["span"]),
                 "the deleted-line queue is used through `%s`: removed and added lines of a hunk must pair first-with-first (push_back / pop_front / clear only)" % nm)
    out.inst("C01.fifo", qn, 2, note="VecDeque call sites in the diff parser (push_back + pop_front at least)")

    # flush functions: crate-local fns whose region clears a VecDeque
    flushers = set()
    for b in diff_bodies(ctx):
        if any(callee_matches(t, r"VecDeque::<T, A>::clear$") or (callee_matches(t, r"VecDeque::<T, A>::drain$") and ((t.get("arg_tys") or ["", ""]) + [""])[1] == "std::ops::RangeFull")
               for bi, t in b.calls()):
            flushers.add(b.id)
    changed = True
    while changed:
        changed = False
        for b in diff_bodies(ctx):
            if b.id in flushers:
                continue
            if any((t.get("res") or "") in flushers for bi, t in b.calls()) and not any(callee_matches(t, r"Iterator>?::next$") for bi, t in b.calls()):
                flushers.add(b.id)
                changed = True
    # the hunk loop (as written, or with the per-hunk helper looked through: the flush may be the helper's last step)
    found = 0
    for b0 in diff_bodies(ctx):
        views = [b0]
        if b0.promoted is None and b0.kind in ("Fn", "AssocFn"):
            views.append(ctx.inl(b0, skip=lambda cb: cb.id in flushers, tag="hunk-flush"))
        verdicts = []
        for b in views:
            cfg = cfg_of(b)
            for h, blocks, next_bb in util.loop_of_next(ctx, b, r"^[^(]*into_iter\(PatchedFile::hunks\("):
                region = util.iter_region(b, next_bb) | set(blocks)
                inner = [hh for hh in cfg.loops() if hh != h and hh in blocks]
                inner_blocks = set()
                for hh in inner:
                    inner_blocks |= cfg.loops()[hh]
                flush_sites = {bi for bi, t in b.calls() if (t.get("res") or "") in flushers and bi in region and bi not in inner_blocks}
                sw = cfg.succ[next_bb][0]
                some = util.switch_arms(b, sw).get(1)
                outside = (set(range(cfg.n)) - region) | flush_sites | {h}
                r = cfg.reach(some, avoid=outside)
                verdicts.append(not (any(h in cfg.succ[x] for x in r) or not flush_sites))
            if verdicts and all(verdicts):
                break
            if b is not views[-1]:
                verdicts = []
        if verdicts:
            found += 1
            if all(verdicts):
                n += 1
            else:
                out.viol("C01.hunk", "C01.hunk|no-flush|%s" % b0.id, ctx.where(b0),
                         "there is a path through one iteration of the hunk loop that does not flush the deleted-line queue after the hunk's lines: removed lines at the end of a hunk would be lost or paired with added lines of a later hunk")
    if not found:
        out.viol("C01.hunk", "C01.hunk|no-hunk-loop", "-",
                 "no loop over `PatchedFile::hunks()` found in the diff parser: the per-hunk flush of pending deleted lines cannot be established")
    out.inst("C01.hunk", n, 1, ["for hunk in hunks { for line in hunk.lines() {..}; flush }"])


def _range_is_unread(b, st):
    """the aggregate built by `st` (and the locals it is moved into) is never read: no place rooted in them occurs
    anywhere but in those moves"""
    if st["lhs"]["p"]:
        return False
    targets = {st["lhs"]["l"]}
    moves = set()
    for _ in range(4):
        for bi, j, s2 in b.assigns():
            rv = s2["rv"]
            pl = (rv["op"].get("m") or rv["op"].get("c")) if rv["k"] == "use" and isinstance(rv.get("op"), dict) else None
            if pl is not None and not pl["p"] and pl["l"] in targets and not s2["lhs"]["p"]:
                targets.add(s2["lhs"]["l"])
                moves.add(id(s2))
    for bi, j, s2 in b.assigns():
        if s2 is st or id(s2) in moves:
            continue
        rv = s2["rv"]
        ops = [rv.get("op"), rv.get("a"), rv.get("b")] + list(rv.get("ops") or [])
        for o in ops:
            pl = (o.get("c") or o.get("m")) if isinstance(o, dict) else None
            if pl is not None and pl["l"] in targets:
                return False
        if "place" in rv and rv["place"]["l"] in targets:
            return False
    for bi, t in b.calls():
        for o in t["args"]:
            pl = o.get("c") or o.get("m")
            if pl is not None and pl["l"] in targets:
                return False
    for blk in b.blocks:
        t = blk["term"]
        if t and t["k"] == "switch":
            pl = t["op"].get("c") or t["op"].get("m")
            if pl is not None and pl["l"] in targets:
                return False
        if t and t["k"] == "drop" and t.get("place", {}).get("l") in targets:
            continue
    # the function's own result is a read
    return 0 not in targets


def check_units(ctx, out):
    """Char-unit values (similar::DiffOp indices from TextDiff::from_chars) reach byte-unit sinks
    only through a char->byte table."""
    n = 0
    CHAR = ("new_index", "new_len", "old_index", "old_len", "len")
    for b in diff_bodies(ctx):
        uses_chars = any(callee_matches(t, r"similar::TextDiff.*::from_chars$") for bi, t in b.calls())
        if not uses_chars:
            continue
        # helpers (an offset-table struct with `chars_range(index, len)` methods, say) are looked through
        b = ctx.inl(b, skip=ctx.domain_api, tag="domain", sugar=True)
        for bi, j, s in b.assigns():
            rv = s["rv"]
            if rv["k"] == "agg" and rv.get("agg") == "adt" and rv.get("path") in ("std::ops::Range", "std::ops::RangeInclusive"):
                for op in rv["ops"]:
                    labs = ctx.prov.read_operand(b, op)
                    charish = any(l[0] != "const" and any(f in l[2] for f in ("new_index", "new_len", "old_index", "old_len")) for l in labs) \
                        or P.has_call(labs, r"similar::(types::)?DiffOp::(as_tag_tuple|new_range|old_range)$")
                    if not charish:
                        continue
                    conv = P.has_call(labs, r"Index<.*>>::index$|ops::Index::index$") and P.has_call(labs, r"<impl str>::char_indices$")
                    if conv:
                        n += 1
                    elif _range_is_unread(b, s):
                        # a range *of characters* that was only an argument of a converting helper: once the helper is
                        # looked through, its two ends are used directly (as table indices) and the range itself is never read
                        pass
                    else:
                        out.viol("C01.units", "C01.units|range-bound|%s" % b.id, ctx.where(b, s["span"]),
                                 "a changed-range bound is a character index of the intra-line diff used as it is; ranges are compared with byte columns, so on lines with multi-byte characters the change is attributed to the wrong columns (expected a char->byte conversion, e.g. indexing a table built from char_indices())")
        for bi, t in b.calls():
            if callee_matches(t, r"cmp::Ord::(min|max)$|<impl usize>::(min|max)$|cmp::(min|max)$"):
                sides = [ctx.prov.read_operand(b, a) for a in t["args"][:2]]
                char_side = [any(l[0] != "const" and any(f in l[2] for f in ("new_index", "new_len", "old_index")) for l in sd) for sd in sides]
                byte_side = [P.has_call(sd, r"<impl str>::len$") and not P.has_call(sd, r"char_indices$|chars$") for sd in sides]
                if (char_side[0] and byte_side[1]) or (char_side[1] and byte_side[0]):
                    out.viol("C01.units", "C01.units|min-mixed|%s" % b.id, ctx.where(b, t["span"]),
                             "a character index is clamped against a byte length (`str::len`): the two are different units on non-ASCII lines")
                elif any(char_side):
                    n += 1
    out.inst("C01.units", n, 5, note="range bounds / clamps that involve character indices of the intra-line diff")


def check_output_writeonly(ctx, out, rule="C01.writeonly"):
    """While a file's diff is scanned, the list of line changes built so far is an output: the diff parser appends
    to it and never reads it back to decide anything. What has to be remembered from one diff line to the next
    (the previous line's kind, the pending deletions) is explicit scan state, reset where the scan says so; a
    decision taken from `line_changes.last()` / `.len()` / an index depends on a change recorded arbitrarily
    far above - another hunk, another part of the file - instead."""
    n = 0
    READ = r"<impl \[T\]>::(last|first|last_mut|first_mut|len|is_empty|iter|iter_mut|get|get_mut|contains|ends_with|starts_with|binary_search\w*|windows|split_last|split_first)$|vec::Vec::<T, A>::(len|is_empty|pop|last|iter|truncate|retain|drain|remove|dedup\w*)$|ops::Index<.*>>?::index$|ops::IndexMut<.*>>?::index_mut$|IntoIterator>?::into_iter$"
    for b in diff_bodies(ctx):
        if b.promoted is not None:
            continue
        # the function that returns the list may hand it on (`into_iter().collect()`, a final sort): only the
        # bodies that take part in the scan - they have a loop over hunks / lines or are called from one - are judged
        for bi, t in b.calls():
            a0 = (t.get("arg_tys") or [""])[0]
            if not re.match(r"&(mut )?(std::vec::Vec<blockwatch::diff_parser::LineChange>|\[blockwatch::diff_parser::LineChange\])$", a0):
                continue
            nm = callee_name(t)
            if re.search(r"vec::Vec::<T, A>::(push|extend|extend_from_slice|append|reserve|with_capacity)$|Extend<.*>>?::extend$|Deref(Mut)?>?::deref(_mut)?$", nm):
                n += 1
                continue
            if re.search(READ, nm):
                out.viol(rule, "%s|%s|%s" % (rule, b.id, nm.split("::")[-1]), ctx.where(b, t["span"]),
                         "the diff parser reads the list of line changes it is building (`%s`): a decision made from what was recorded earlier - possibly in another hunk, arbitrarily far above - instead of from the scan's own state (previous line, pending deletions)" % nm.split("::")[-1])
    out.inst(rule, n, 2, note="appends to the line-change list in the diff parser; reads of it must be 0")


def _span_monotone(ctx):
    from rules.C02 import span_verdict
    return span_verdict(ctx) is True and ctx.__dict__.get("_span_monotone") is True


def check_search(ctx, out, rule="C01.search"):
    n = 0
    samples = []
    evals = 0
    kinds_seen = set()
    for b, bi, t in O.sites(ctx.facts, ctx.reachable_bodies()):
        ty = (t.get("arg_tys") or [""])[0]
        if "LineChange" in ty:
            kind = "line"
        elif "std::ops::Range<usize>" in ty:
            kind = "range"
        else:
            continue
        kinds_seen.add(kind)
        nm = (t.get("def") or "").split("::")[-1]
        if nm in ("binary_search", "binary_search_by_key"):
            n += 1
            continue
        cb, names = O.closure_of_arg(ctx.facts, b, t["args"][1])
        if cb is None:
            out.viol(rule, "%s|%s|%s|no-closure" % (rule, b.id, nm), ctx.where(b, t["span"]), "the predicate of `%s` is not a closure that can be analysed" % nm)
            continue
        ok, detail, ev = O.check_predicate(ctx.facts, cb, kind)
        evals += ev
        if not ok and detail.startswith("not provably monotone") and _span_monotone(ctx):
            # a comparator the enumeration cannot follow (a trait method, a closure parameter): its outcomes are
            # monotone along every ordered list of the span model, which walked it in its monomorphised context
            n += 1
            samples.append("%s in %s: monotone along the span model's ordered lists" % (nm, b.id.split("::")[-1]))
            continue
        if ok:
            n += 1
            samples.append("%s in %s: monotone on %d model evaluations" % (nm, b.id.split("::")[-1], ev))
        else:
            out.viol(rule, "%s|%s|%s" % (rule, b.id, nm), ctx.where(b, t["span"]),
                     "the %s of `%s` over a slice sorted by %s is %s — an ordered search with such a predicate can miss elements that do intersect" % (
                         "predicate" if nm == "partition_point" else "comparator", nm, "line" if kind == "line" else "start (disjoint ranges)", detail))
    # the scan after partition_point covers the whole span: take_while predicate monotone too
    for b in ctx.reachable_bodies():
        for bi, t in b.calls():
            if callee_matches(t, r"Iterator::take_while$") and "LineChange" in (t.get("arg_tys") or [""])[0]:
                cb, names = O.closure_of_arg(ctx.facts, b, t["args"][1])
                if cb is not None:
                    ok, detail, ev = O.check_predicate(ctx.facts, cb, "line")
                    evals += ev
                    if ok:
                        n += 1
                    else:
                        out.viol(rule, "%s|%s|take_while" % (rule, b.id), ctx.where(b, t["span"]), "the take_while bound over the sorted line changes is %s" % detail)
    # the anchor: at least one ordered search over the line changes and one over a line's changed ranges
    # (fewer sites than today's - one shared helper for both kinds of span - are the same searches)
    out.inst(rule, n if kinds_seen >= {"line", "range"} else min(n, 1), 2, samples, note="%d model evaluations" % evals, exhaustive=True)


def check_affects(ctx, out):
    name = "affects"
    raw = ctx.validate_body(name)
    if raw is None:
        out.inst("C01.guard", 0, 3)
        return
    # as written, and normalised (an index built by a helper / a pipeline reads like the loop in place)
    from engine.core import on_any_view
    on_any_view(out, [raw, ctx.validate_body(name, inline=True, sugar=True)], lambda v, o: _check_affects(ctx, o, v))


def _check_affects(ctx, out, vb):
    name = "affects"
    cfg = cfg_of(vb)
    E = ctx.expr(vb)
    n_guard = 0
    KEYTY = "(std::path::PathBuf, std::string::String)"

    def content_guard(bb):
        for br, vals, e in util.guards(ctx, vb, bb):
            txt = render(e, 2000)
            if txt.endswith(".is_content_modified") or ".is_content_modified" in txt:
                if e[0] == "un" and e[1] == "Not":
                    return vals == {0}
                return 0 not in vals
        return None

    # insertion into the index of modified blocks
    # the index of modified blocks: a map or a set keyed by (file, name)
    def is_index(t):
        a0 = (t.get("arg_tys") or [""])[0]
        return re.search(r"(HashMap|HashSet|BTreeMap|BTreeSet)<\(&?(std::path::PathBuf|std::path::Path), &?(std::string::String|str)\)", a0) is not None
    index_sites = [(bi, t) for bi, t in vb.calls() if callee_matches(t, r"(HashMap::<K, V, S, A>|BTreeMap::<K, V, A>)::(entry|insert)$|(HashSet::<T, S, A>|BTreeSet::<T, A>)::insert$") and is_index(t)]
    lookups = [(bi, t) for bi, t in vb.calls() if callee_matches(t, r"(HashMap::<K, V, S, A>|BTreeMap::<K, V, A>)::(contains_key|get)$|(HashSet::<T, S, A>|BTreeSet::<T, A>)::contains$") and is_index(t)]
    for bi, t in index_sites:
        g = content_guard(bi)
        if g:
            n_guard += 1
        else:
            out.viol("C01.guard", "C01.guard|collect", ctx.where(vb, t["span"]),
                     "a block is added to the set of modified blocks on a path that is not guarded by `is_content_modified`: a block whose content the diff does not touch would satisfy references to it")
        if callee_name(t).endswith("::insert") and "Map" in callee_name(t):
            out.viol("C01.key", "C01.key|insert-overwrite", ctx.where(vb, t["span"]),
                     "the index of modified blocks is filled with `insert`: two modified blocks with the same key replace each other; with keys that are not (file, name) pairs the verdict depends on iteration order")
    for bi, t in lookups:
        g = content_guard(bi)
        if g:
            n_guard += 1
        else:
            out.viol("C01.guard", "C01.guard|check", ctx.where(vb, t["span"]),
                     "references are checked for a block on a path that is not guarded by `is_content_modified`: a block only selected through its tag would demand changes of its linked blocks")
    # the detector
    info = ctx.validator(name)
    det = ctx.facts.bodies.get(info["detect"]) if info and info.get("detect") else None
    if det is not None and shared.detect_cases_verdict(ctx, name) is True:
        # decided on the detector's small model (fires iff the attribute is present and the content modified)
        n_guard += 1
    elif det is not None:
        ok = False
        for bi, j, s in det.assigns():
            rv = s["rv"]
            if rv["k"] == "agg" and rv.get("variant") == "Some":
                gs = util.guard_texts(ctx, det, bi)
                a = any("is_content_modified" in g[2] and "0" not in g[1] for g in gs)
                b2 = any("contains_key" in g[2] and "'affects'" in g[2] and "0" not in g[1] for g in gs)
                if a and b2:
                    ok = True
        if ok:
            n_guard += 1
        else:
            out.viol("C01.guard", "C01.guard|detector", ctx.where(det), "the affects detector does not require `is_content_modified && attributes.contains_key(\"affects\")`")
    out.inst("C01.guard", n_guard, 3, ["collect / check / detect all under is_content_modified"])

    # ---------------------------------------------------------------- C01.key
    n_key = 0
    if len(index_sites) == 1 and len(lookups) == 1:
        ibi, it = index_sites[0]
        lbi, lt = lookups[0]
        ity = (it.get("arg_tys") or ["", ""])[1]
        lty = (lt.get("arg_tys") or ["", ""])[1]
        KEYRX = r"\(&?(std::path::PathBuf|std::path::Path), &?(std::string::String|str)\)"
        if re.search(KEYRX, ity) and re.search(KEYRX, lty):
            n_key += 1
        else:
            out.viol("C01.key", "C01.key|shape", ctx.where(vb, it["span"]),
                     "modified blocks are indexed by `%s` and looked up by `%s`; the property identifies a block by (file, name)" % (ity, lty))
        # inserted key: (current file of the collecting loop, Block::name)
        ipl = util.op_place(it["args"][1])
        i0 = ctx.prov.read_place(vb, {"l": ipl["l"], "p": ipl["p"] + [{"f": "0"}]}) if ipl else set()
        i1 = ctx.prov.read_place(vb, {"l": ipl["l"], "p": ipl["p"] + [{"f": "1"}]}) if ipl else set()
        if P.has_call(i1, r"blocks::Block::name$") and not P.has_call(i0, r"blocks::Block::name$"):
            n_key += 1
        else:
            out.viol("C01.key", "C01.key|inserted-name", ctx.where(vb, it["span"]), "the inserted key's name part does not derive from the block's `name` attribute")
        if P.has_call(i0, r"hash_map::Iter<.*Iterator>::next$") or P.has_path(i0, "blocks"):
            n_key += 1
        else:
            out.viol("C01.key", "C01.key|inserted-file", ctx.where(vb, it["span"]), "the inserted key's file part does not derive from the file being iterated")
        # looked-up key: (parsed file or the modified block's own file, parsed name)
        lpl = util.op_place(lt["args"][1])
        l0 = ctx.prov.read_place(vb, {"l": lpl["l"], "p": lpl["p"] + [{"f": "0"}]}) if lpl else set()
        l1 = ctx.prov.read_place(vb, {"l": lpl["l"], "p": lpl["p"] + [{"f": "1"}]}) if lpl else set()
        parse_fns = [c for c in ctx.region(vb) if c.local_ty(0).startswith("std::result::Result<std::vec::Vec<(std::option::Option<std::path::PathBuf>, std::string::String)>")]
        pid = parse_fns[0].id if parse_fns else None
        def from_ref(labs):
            if pid and P.has_call(labs, re.escape(pid) + "$"):
                return True
            return P.has_call(labs, r"<impl str>::split_once$") and P.has_const(labs, "affects")
        if from_ref(l1) and from_ref(l0):
            n_key += 1
        else:
            out.viol("C01.key", "C01.key|lookup-source", ctx.where(vb, lt["span"]), "the looked-up key does not derive from the parsed `affects` reference")
        # fallback of an empty file part = file of the modified block (the loop the lookup is in): the file
        # part of the looked-up key derives from the parsed reference and, besides, only from the key
        # of the file iteration that encloses the lookup
        loops_here = cfg.loops_containing(lbi)
        its = [x for x in util.loop_of_next(ctx, vb, r"\.blocks\b") if x[0] in loops_here]
        loopkeys = set()
        for hh, bl, nb in its:
            nt = vb.blocks[nb]["term"]
            loopkeys |= {l for l in ctx.prov.read_local(vb, nt["dest"]["l"], ("0", "0")) if l[0] != "const"}
        ref_labs = set()
        for bi, t in vb.calls():
            if (pid and (t.get("res") or "") == pid) or (callee_matches(t, r"HashMap::<K, V, S, A>::get$") and len(t["args"]) > 1 and util.const_val(ctx, vb, t["args"][1]) == "affects"):
                ref_labs |= {l for l in ctx.prov.read_operand(vb, t["args"][0] if (t.get("res") or "") == pid else t["args"][0]) if l[0] != "const"}
                ref_labs |= {l for l in ctx.prov.read_place(vb, t["dest"]) if l[0] != "const"}
        CONV = r"(Clone>?::clone|Path(Buf)?::(as_path|to_path_buf|from|new|as_ref)|Option::<T>::(as_deref|as_ref|unwrap_or|unwrap_or_else|unwrap_or_default|cloned|map|map_or|map_or_else)|From<.*>>?::from|Into<.*>>?::into|ToOwned>?::to_owned|Deref>?::deref|AsRef<.*>>?::as_ref|Borrow<.*>>?::borrow|Iterator>?::next|IntoIterator>?::into_iter)$"
        ref_calls = {l[1] for l in ref_labs if l[0] == "call"}
        own, stray = set(), set()
        PARSE = r"(<impl str>::(split_once|rsplit_once|split|trim|trim_start|trim_end|is_empty|to_string|to_owned)|<impl bool>::(then|then_some)|anyhow::(Context|context).*::(with_context|context)|ops::Try>?::branch|FromResidual.*::from_residual|Vec::<T, A>::(push|new|with_capacity)|Vec::<T>::(new|with_capacity)|Iterator>?::(map|collect|next)|IntoIterator>?::into_iter|FromIterator.*::from_iter|HashMap::<K, V, S, A>::get|ToString>?::to_string|String::(as_str|from)|Result::<T, E>::(map|ok)|Option::<T>::(ok_or|ok_or_else|filter)|fmt::rt::Argument::<'_>::new_\w+|fmt::Arguments::<'a>::new\w*|fmt::format|hint::must_use|anyhow::__private::\w+|anyhow::Error::msg|anyhow::error::<impl anyhow::Error>::msg)$"

        def extends(l, k):
            return l[:2] == k[:2] and tuple(l[2][:len(k[2])]) == tuple(k[2])
        for l in l0:
            if l[0] in ("const", "fn"):
                continue
            if l[0] == "call":
                if not (l[1] in ref_calls or re.search(CONV, l[1]) or re.search(PARSE, l[1])):
                    stray.add(l)
                continue
            if any(extends(l, k) for k in loopkeys):
                own.add(l)
            elif not any(extends(l, r) for r in ref_labs if r[0] != "call"):
                stray.add(l)
        if its and own and not stray:
            n_key += 1
        elif not own:
            out.viol("C01.key", "C01.key|no-fallback", ctx.where(vb, lt["span"]), "no fallback for a reference with an empty file part (`:name`) found: the file part of the looked-up key never derives from the file of the modified block")
        else:
            out.viol("C01.key", "C01.key|fallback", ctx.where(vb, lt["span"]),
                     "an empty file part of a reference falls back to [%s]; expected the path of the file that contains the modified block, taken from the current iteration" % util.origins_text(stray, 12))
        # one push per missing reference: push guarded by contains_key == false, inside the loop over references
        pushes = util.violation_push_sites(vb)
        for bi, t in pushes:
            good = False
            for br, vals, e in util.guards(ctx, vb, bi):
                # the guard is the lookup itself (`guards` reports `!x` as a test on x with swapped arms)
                if e[0] == "call" and len(e) > 3 and e[3] == lbi:
                    good = vals == {0}
            refloops = [(cfg.innermost_loop(x), x) for x, tt in vb.calls() if callee_matches(tt, r"Iterator>?::next$") and cfg.innermost_loop(x) is not None
                        and re.search(r"\(std::option::Option<std::path::PathBuf>, std::string::String\)", (tt.get("arg_tys") or [""])[0] + " " + vb.local_ty((util.op_place(tt["args"][0]) or {"l": 0})["l"]))]
            in_ref_loop = any(bi in (util.iter_region(vb, nb) | set(cfg.loops()[hh])) for hh, nb in refloops)
            if good and in_ref_loop:
                n_key += 1
            else:
                out.viol("C01.key", "C01.key|push-guard", ctx.where(vb, t["span"]),
                         "the affects violation is not pushed exactly under `!modified.contains_key(&(file, name))` inside the loop over the block's references")
    else:
        out.viol("C01.key", "C01.key|sites", ctx.where(vb), "expected one insertion into and one lookup in the index of modified blocks, found %d/%d" % (len(index_sites), len(lookups)))
    out.inst("C01.key", n_key, 6, ["index[(file,name)] ; lookup (ref.file or own file, ref.name); push iff missing"])

    # ---------------------------------------------------------------- carried state (other than the index)
    shared_state_affects(ctx, out, vb)


def shared_state_affects(ctx, out, vb):
    """Between files/blocks only the diagnostics map and the (file,name) index may carry state."""
    cfg = cfg_of(vb)
    found = 0
    for h, blocks, kind in shared.outer_block_loops(ctx, vb):
        found += 1
        touched = {}
        for x in blocks:
            for s in vb.blocks[x]["stmts"]:
                if s["k"] == "assign":
                    touched.setdefault(s["lhs"]["l"], s.get("span"))
                    if s["rv"]["k"] == "ref" and s["rv"].get("mut"):
                        touched.setdefault(s["rv"]["place"]["l"], s.get("span"))
            t = vb.blocks[x]["term"]
            if t and t["k"] == "call":
                touched.setdefault(t["dest"]["l"], t.get("span"))
        for l, sp in touched.items():
            loc = vb.locals[l]
            if not loc.get("user") or not loc.get("name"):
                continue
            if not any(d[1] not in blocks for d in vb.defs().get(l, [])):
                continue
            ty = loc["ty"]
            if shared.VIOL_MAP.search(ty) or re.search(r"(HashMap|HashSet|BTreeMap|BTreeSet)<\(&?(std::path::PathBuf|std::path::Path), &?(std::string::String|str)\)", ty):
                continue
            if re.search(r"::Iter<|::IterMut<|::IntoIter<|std::iter::|::Split<", ty):
                continue
            if not shared.CONTAINERish.search(ty) and not loc.get("mut"):
                continue
            out.viol("C01.state", "C01.state|%s" % loc["name"], ctx.where(vb, sp),
                     "variable `%s` (%s) lives across the per-file loop of the affects validator and is mutated inside it: what is computed for one file (e.g. a resolved `:name` reference) leaks into the next" % (loc["name"], ty))
    out.inst("C01.state", found, 4, note="file/block loops of the affects validator examined for carried state")


def check_prefix(ctx, out, rule="C15.prefix"):
    """PatchedFile::target_file -> map key: only single-shot string operations."""
    n = 0
    REPEAT = r"<impl str>::(trim_start_matches|trim_matches|trim_end_matches|replace|replacen|trim_left_matches|split|rsplit|strip_suffix)$"
    for b in diff_bodies(ctx):
        key_sites = []
        for bi, t in b.calls():
            if callee_matches(t, r"HashMap::<K, V, S, A>::insert$") and "diff_parser::LineChange" in (t.get("arg_tys") or [""])[0]:
                key_sites.append((t, ctx.prov.read_operand(b, t["args"][1])))
            # or the pairs are collected: `.map(|f| (key(f), line_changes(f))).collect::<HashMap<_, _>>()`
            if callee_matches(t, r"Iterator>?::collect$") and re.search(r"HashMap<std::path::PathBuf, std::vec::Vec<blockwatch::diff_parser::LineChange>", t.get("dest_ty") or ""):
                e = ctx.expr(b).operand(t["args"][0])
                maps = [c for c in walk(e) if c[0] == "call" and re.search(r"Iterator>?::map$", c[1])]
                if maps:
                    clo = [a for a in maps[0][2] if a[0] == "agg" and a[1].startswith("closure:")]
                    cb = ctx.facts.body(clo[0][1][8:]) if clo else None
                    if cb is not None:
                        cv = ctx.inl(cb, skip=ctx.domain_api, tag="domain", sugar=True)
                        key_sites.append((t, ctx.prov.read_local(cv, 0, ("0",))))
        for t, labs in key_sites:
                n += 1
                if not P.has_path(labs, "target_file"):
                    out.viol(rule, "%s|not-target" % rule, ctx.where(b, t["span"]),
                             "the diff's file key derives from [%s], not from the patched file's target (`+++`) path: renamed or copied files would be looked up under their old name" % util.origins_text(labs, 5))
                bad = sorted({l[1] for l in labs if l[0] == "call" and re.search(REPEAT, l[1])})
                if bad:
                    out.viol(rule, "%s|repeated-strip" % rule, ctx.where(b, t["span"]),
                             "the diff target path is normalised with %s, which strips or rewrites repeatedly: a file below a directory named `b` loses more than git's one `b/` prefix" % [x.split("::")[-1] for x in bad])
                sp = [l for l in labs if l[0] == "call" and re.search(r"<impl str>::strip_prefix$", l[1])]
                if sp:
                    n += 1
                else:
                    out.viol(rule, "%s|no-strip" % rule, ctx.where(b, t["span"]), "git's `b/` prefix is not removed from the diff target path with a single `strip_prefix`")
                if P.has_path(labs, "source_file") or P.has_call(labs, r"PatchedFile::path$"):
                    out.viol(rule, "%s|source-path" % rule, ctx.where(b, t["span"]), "the diff's file key (also) derives from the source (`---`) path")
        for bi, t in b.calls():
            if callee_matches(t, r"<impl str>::strip_prefix$"):
                c = util.const_val(ctx, b, t["args"][1]) if len(t["args"]) > 1 else None
                if c == "b/":
                    n += 1
                else:
                    out.viol(rule, "%s|prefix-const" % rule, ctx.where(b, t["span"]), "the stripped prefix is %r, git writes `b/`" % (c,))
    out.inst(rule, n, 3, ["key := target_file.strip_prefix(\"b/\").unwrap_or(target_file)"])


def check_accept(ctx, out):
    """`Any ordinary two-way diff that git emits is accepted, whatever the files contain`: the census of
    panic-capable sites (shared with C04), over the files of the functions that turn the diff text into line changes."""
    from rules import C04
    entries = [b for b in ctx.reachable_bodies()
               if re.search(r"HashMap<std::path::PathBuf, std::vec::Vec<blockwatch::diff_parser::LineChange>", b.local_ty(0) or "")
               and not b.id.startswith("bwbin::")]
    if not entries:
        out.viol("C01.census", "C01.census|anchor-missing", "-", "could not find the function that returns the line changes per file")
        out.inst("C01.census", 0, 1)
        return
    files = set()
    for e in entries:
        for b in ctx.region(e):
            if b.id.startswith("blockwatch::") and not b.is_derive():
                files.add(b.file)
    within = {b.id for b in ctx.reachable_bodies() if b.file in files}
    # ... the sites whose failing value is a property of the *text* (a `str` cut at a byte offset that is not a
    # character boundary): what "whatever the files contain" adds to C04's statement. Index arithmetic on tables
    # stays C04's.
    n_files = len(files)
    kinds = lambda s: s["kind"] == "index-str" or (s["kind"].startswith("std:") and "str" in (s.get("recv_ty") or "") + s["detail"])
    shared.run_renamed(out, lambda o: C04.check_census(ctx, o, within=within, floor=0, kinds=kinds), "C04", "C01")
    # positive control on every run (the expected count in the region is 0): the census still recognises sites of
    # this kind where the crate has them today (the comment / tag position code)
    from engine import census as _census
    n_ctl = len([s for s in _census.sites(ctx, ctx.reachable_bodies()) if kinds(s)])
    r = out.rules.get("C01.census")
    if r is not None:
        in_region = r.get("found", 0)
        out.inst("C01.census", n_ctl if n_files else 0, FLOOR_TEXT_SITES,
                 note="%d file(s) of the diff-to-line-changes region examined, %d text-dependent site(s) there discharged; positive control: %d such site(s) recognised in the whole crate" % (n_files, in_region, n_ctl))


FLOOR_TEXT_SITES = 3


def run(ctx, out, tier):
    check_coord(ctx, out)
    check_queue(ctx, out)
    check_units(ctx, out)
    check_search(ctx, out)
    check_affects(ctx, out)
    check_prefix(ctx, out)
    check_skipfile(ctx, out)
    # "a block counts as modified exactly when the diff touches it": the per-block decision table and
    # its statelessness (shared with C02)
    from rules.C02 import check_filter
    from rules.C12 import file_parser
    fp = file_parser(ctx)
    if fp is None:
        out.inst("C01.filter", 0, 8, note="file parser not found")
    else:
        check_filter(ctx, out, fp, rule="C01.filter")
    bodies = [b for b in ctx.reachable_bodies() if b.id.startswith("blockwatch::diff_parser::") or "validators::affects" in b.id or b.id.startswith("blockwatch::blocks::") or b.id.startswith("bwbin::")]
    shared.sh_err(ctx, out, bodies, floor=40)
    shared.sh_main(ctx, out)
    shared.sh_traverse(ctx, out)
    # with a diff AND glob arguments: a diffed file outside the globs must still be examined (shared with
    # C02/C15), and the affects diagnostics must survive the merge with other validators' (append-only)
    if fp is not None:
        from rules.C02 import check_mode
        check_mode(ctx, out, fp, rule="C01.mode")
    shared.sh_merge(ctx, out, ctx.reachable_bodies())
    shared.sh_units(ctx, out)
    # a rule only runs if the lazy detection loop creates its validator: every pending detector is asked
    # about every block (shared with C14)
    from rules.C14 import check_once as _detect_once, detect_fn as _detect_fn
    _dv = _detect_fn(ctx)
    if _dv is not None:
        _detect_once(ctx, out, _dv, rule="C01.detect")
    else:
        out.inst("C01.detect", 0, 4)
    # what a validator found is only reported if the report keeps every violation (shared with C11)
    from rules.C11 import check_items as _check_items
    shared.run_renamed(out, lambda o: _check_items(ctx, o), "C11", "C01")
    from rules.shared import check_detect_cases
    check_detect_cases(ctx, out, ["affects"], rule="C01.detectcase")
    shared.check_scan_state(ctx, out, "C01.scanstate")
    # whether a change touches a block is decided with the range kind the block model declares (shared with C02)
    from rules.C02 import check_inclusive
    check_inclusive(ctx, out, rule="C01.incl")
    from rules.C02 import _span
    _span(ctx, out, "C01.span")
    check_output_writeonly(ctx, out)
    check_linekind(ctx, out)
    check_accept(ctx, out)
    return meta()


def meta():
    return {
        "explanation": "Decides the coordinate / unit / ordering discipline that the drift check needs on inputs other than the tests': new-file coordinates of every LineChange (origin sets), monotone predicates of all ordered searches (finite-model evaluation of the closures), FIFO use and per-hunk flush of the deleted-line queue (path property), char->byte conversion of intra-line diff indices, is_content_modified guards, (file,name) key shapes with own-file fallback, push iff missing, no state leaking between files, single strip of `b/`, no swallowed Result. These are necessary conditions; the arithmetic on positions is not decided.",
        "undecided": "that the line changes produced from the diff are right for every edit script (unidiff's parsing of git's output; the overlap test itself is decided on a small model, C01.span).",
        "assumptions": ["line changes of one file are pushed in hunk order (iteration order of unidiff)"],
    }
