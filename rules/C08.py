"""C08 — line-pattern reports a block iff some line fails the regex.

Decided: the string tested is `line.trim()` of the loop's line; blank lines `continue` (never
tested, never end the scan); the violation is pushed exactly when `is_match` is false; the first
failure leaves the line loop; the regex is compiled from the attribute text unmodified and before
the loop; the enumerated index counts every content line (so the designated line is the failing
one); no carried state, no swallowed error.
Not decided: regex semantics on runtime strings.
"""
import re

from engine.cfg import cfg_of
from engine.expr import render, walk, find_calls
from engine.facts import callee_name, callee_matches
from engine import prov as P
from rules import shared, util, linelevel

NAME = "line-pattern"

ARG_ALLOWED = [r"<impl str>::trim$", r"<impl str>::lines$", r"Iterator::enumerate$", r"Iterator>?::next$", r"IntoIterator>?::into_iter$",
               r"blocks::Block::content$", r"Index<.*>::index$|ops::Index::index$", r"Deref>?::deref$"]


def enumerate_chain_ok(ctx, body, next_t):
    """The loop iterator is enumerate(lines(content)) with nothing in between."""
    e = ctx.expr(body).operand(next_t["args"][0])
    chain = []
    cur = e
    while cur[0] == "call":
        chain.append(cur[1].split("::")[-1])
        cur = cur[2][0] if cur[2] else ("var", -1, "?")
    # allowed shapes: into_iter <- enumerate <- lines <- content
    core = [c for c in chain if c not in ("into_iter", "deref", "by_ref")]
    return core[:3] == ["enumerate", "lines", "content"], core


def check_model(ctx, out, rule="C08.model"):
    """line-pattern on a small model: three content lines, each blank / matching / not matching
    (27 cases). Expected: a violation iff some line does not match, exactly one, and it designates
    the first such line (the index handed to Block::content_line_position); the regex is applied to the
    line's `trim()`; blank lines are neither tested nor do they end the scan."""
    from rules import linemodel as LMo
    from engine import casewalk as CW
    import itertools
    vb = ctx.validate_body(NAME, inline=True, sugar=True)
    if vb is None:
        return None
    n = 0
    undecided = False
    for case in itertools.product(("blank", "match", "nomatch"), repeat=3):
        lines = [CW.sym("L%d" % i) for i in range(3)]

        def extra(w, bb, t, argv, env, rep, case=case):
            nm = callee_name(t)
            a0 = w.deref_val(env, argv[0]) if argv else CW.TOP
            if re.search(r"<impl str>::trim$", nm) and a0[0] == "sym" and str(a0[1]).startswith("L"):
                return CW.sym("trim", a0)
            if re.search(r"<impl str>::(trim|trim_start|trim_end)$", nm) and a0[0] == "sym" and a0[1] in ("trim", "trim_start", "trim_end") and len(a0) > 2:
                # the two half-trims compose to `trim()` in either order; trimming a trimmed text again changes nothing
                k_ = nm.rsplit("::", 1)[1]
                if a0[1] == "trim" or k_ == "trim" or k_ != a0[1]:
                    return CW.sym("trim", a0[2])
                return a0
            if re.search(r"<impl str>::(trim_start|trim_end|trim_ascii\w*|trim_matches|to_\w+)$", nm) and a0[0] == "sym":
                return CW.sym(nm.split("::")[-1], a0)
            if re.search(r"<impl str>::is_empty$", nm) and a0[0] == "sym":
                base = a0[2] if a0[1] == "trim" else a0
                if a0[1] == "trim" and base[0] == "sym" and str(base[1]).startswith("L"):
                    return CW.const(1 if case[int(base[1][1:])] == "blank" else 0)
                if str(a0[1]).startswith("L"):
                    return None     # emptiness of the untrimmed line: unknown (a blank line may hold spaces)
                return None
            if re.search(r"regex::Regex::new$", nm):
                return CW.adt("std::result::Result", "Ok", 0, [("0", CW.sym("RE"))])
            if re.search(r"regex::Regex::is_match$", nm) and len(argv) > 1:
                x = w.deref_val(env, argv[1])
                if x[0] == "sym" and x[1] == "trim" and x[2][0] == "sym" and str(x[2][1]).startswith("L"):
                    i = int(x[2][1][1:])
                    if case[i] == "blank":
                        rep.problems.append("a blank line is tested against the pattern")
                    return CW.const(1 if case[i] == "match" else 0)
                rep.problems.append("the pattern is applied to %s, not to the line's trim()" % LMo_show(x))
                return None
            return None
        rep = LMo.walk_block(ctx, vb, NAME, lines, extra)
        if rep is None:
            undecided = True
            break
        fails = [i for i in range(3) if case[i] == "nomatch"]
        want = {fails[0]} if fails else set()
        desc = "lines (%s)" % ", ".join(case)
        if rep.problems:
            out.viol(rule, "%s|%s|%s" % (rule, "".join(c[0] for c in case), "problem"), ctx.where(vb), "%s: %s" % (desc, rep.problems[0]))
        elif rep.reported != want:
            if "?" in rep.reported or "sym" in rep.reported:
                out.viol(rule, "%s|%s|line-unknown" % (rule, "".join(c[0] for c in case)), ctx.where(vb),
                         "%s: a violation is built whose line does not come from Block::content_line_position(enumerate index)" % desc)
            else:
                out.viol(rule, "%s|%s|verdict" % (rule, "".join(c[0] for c in case)), ctx.where(vb),
                         "%s: violations are built for content line index(es) %s; expected %s (a violation exactly when some non-blank line does not match, designating the first such line)"
                         % (desc, sorted(rep.reported) or "none", sorted(want) or "none"))
        elif want and any(k == 0 and not (seen_idx & want) for k, seen_idx in rep.ends):
            out.viol(rule, "%s|%s|passed-over" % (rule, "".join(c[0] for c in case)), ctx.where(vb),
                     "%s: on some path the block is left for the next one without the violation being built - a block can be passed over (its offending line is never even located) although one of its lines fails the pattern" % desc)
        else:
            n += 1
    if undecided:
        return None
    out.inst(rule, n, 27, ["3 content lines x {blank, match, no match}: violation iff some line fails, at the first failing line, pattern applied to trim()"], exhaustive=True)
    return n == 27


def LMo_show(v):
    if v[0] == "sym":
        return "%s(%s)" % (v[1], ", ".join(LMo_show(x) if isinstance(x, tuple) else str(x) for x in v[2:])) if len(v) > 2 else str(v[1])
    return v[0]


def run(ctx, out, tier):
    vb = ctx.validate_body(NAME, inline=True, sugar=True)
    if vb is None:
        out.inst("C08.anchor", 0, 1)
        return meta()
    out.inst("C08.anchor", 1, 1, [vb.id])
    cfg = cfg_of(vb)
    E = ctx.expr(vb)
    # the verdict table on a small model (27 cases); if the model cannot follow the code, the structural
    # rules below decide the same aspects instead
    tr = out.trial()
    try:
        decided = check_model(ctx, tr)
    except Exception as e:      # noqa: BLE001
        ctx.view_fallbacks.append("C08.model: small-model analysis failed (%s: %s)" % (type(e).__name__, e))
        decided = None
    region = None
    if decided is not None:
        out.adopt(tr)
    else:
        loops = linelevel.line_loops(ctx, vb)
        if len(loops) != 1:
            out.inst("C08.loop", len(loops), 1, note="exactly one loop over content.lines() expected")
            return meta()
        header, blocks, next_bb = loops[0]
        region = util.iter_region(vb, next_bb) | set(blocks)
        next_t = vb.blocks[next_bb]["term"]
        ok_chain, core = enumerate_chain_ok(ctx, vb, next_t)
        if not ok_chain:
            out.viol("C08.loop", "C08.loop|chain", ctx.where(vb, next_t["span"]),
                     "the line loop iterates %s; expected enumerate() directly over lines() of the block content, so that the index is the content line's index" % " <- ".join(core[:5]))
        out.inst("C08.loop", 1, 1, ["for (i, line) in content.lines().enumerate()"])
        pushes = [p for p in util.violation_push_sites(vb) if p[0] in region]

        # ------------------------------------------------------------------ C08.arg / C08.blank / polarity
        ms = [(bi, t) for bi, t in vb.calls() if callee_matches(t, r"regex::Regex::is_match$") and bi in region]
        n_arg = 0
        n_blank = 0
        if len(ms) != 1:
            out.viol("C08.arg", "C08.arg|is_match-count", ctx.where(vb), "expected exactly one `Regex::is_match` in the line loop, found %d" % len(ms))
        else:
            mbi, mt = ms[0]
            ae = E.operand(mt["args"][1])
            labs = ctx.prov.read_operand(vb, mt["args"][1])
            if ae[0] == "call" and re.search(r"<impl str>::trim$", ae[1]):
                n_arg += 1
            else:
                out.viol("C08.arg", "C08.arg|not-trimmed", ctx.where(vb, mt["span"]),
                         "`is_match` is applied to `%s`; expected the line trimmed of surrounding whitespace (`line.trim()`)" % render(ae, 120))
            if linelevel.key_calls_allowed(ctx, out, "C08.arg", vb, labs, ctx.where(vb, mt["span"]), "the tested text", ARG_ALLOWED):
                n_arg += 1
            # the trimmed text is the trim of the loop's own line
            if P.has_call(labs, r"<impl str>::lines$"):
                n_arg += 1
            else:
                out.viol("C08.arg", "C08.arg|not-loop-line", ctx.where(vb, mt["span"]), "the tested text does not derive from a line of the block content")
            # blank guard
            blank = None
            for br, vals, e in util.guards(ctx, vb, mbi):
                txt = render(e, 300)
                if re.search(r"^str::is_empty\(str::trim\(", txt):
                    blank = (br, vals)
            if blank is None:
                out.viol("C08.blank", "C08.blank|unguarded", ctx.where(vb, mt["span"]), "`is_match` is not guarded by `!line.trim().is_empty()`: blank lines would be tested against the pattern")
            else:
                br, vals = blank
                if vals != {0}:
                    out.viol("C08.blank", "C08.blank|polarity", ctx.where(vb, mt["span"]), "`is_match` is evaluated when the trimmed line IS empty")
                else:
                    n_blank += 1
                # the blank arm continues the loop and does nothing else
                arms = util.switch_arms(vb, br)
                blank_arm = arms["otherwise"] if 0 in arms else None
                if blank_arm is not None:
                    okc, r = util.continue_only(cfg, blank_arm, region, header)
                    if okc:
                        n_blank += 1
                    else:
                        out.viol("C08.blank", "C08.blank|not-continue", ctx.where(vb),
                                 "a blank line does not simply continue with the next line (it can leave the line loop): lines after a blank line would never be checked")
                    calls = [callee_name(vb.blocks[x]["term"]) for x in r if vb.blocks[x]["term"] and vb.blocks[x]["term"]["k"] == "call"]
                    if calls:
                        out.viol("C08.blank", "C08.blank|side-effect", ctx.where(vb), "the blank-line arm does more than continue: %s" % calls[:3])
            # polarity of the push
            n_pol = 0
            for bi, t in pushes:
                ok = False
                for br2, vals2, e2 in util.guards(ctx, vb, bi):
                    if e2[0] == "call" and re.search(r"regex::Regex::is_match$", e2[1]):
                        if vals2 == {0}:
                            ok = True
                        else:
                            out.viol("C08.polarity", "C08.polarity|inverted", ctx.where(vb, t["span"]), "the line-pattern violation is pushed when the line MATCHES the pattern")
                            ok = True
                if ok:
                    n_pol += 1
                else:
                    out.viol("C08.polarity", "C08.polarity|guard", ctx.where(vb, t["span"]), "the line-pattern violation push is not guarded by `!re.is_match(trimmed)`")
            out.inst("C08.polarity", n_pol, 1, ["push iff !is_match(trimmed)"])
            # a matching line continues with the next line
            arms = None
            match_arm = None
            for bj, tt in vb.terms():
                if tt["k"] != "switch" or bj not in region:
                    continue
                e3 = util.switch_operand_expr(ctx, vb, bj)
                flipped = False
                while e3[0] == "un" and e3[1] == "Not":
                    e3 = e3[2]
                    flipped = not flipped
                if e3[0] == "call" and len(e3) > 3 and e3[3] == mbi:
                    arms = util.switch_arms(vb, bj)
                    match_arm = (arms["otherwise"] if 0 in arms else arms.get(1)) if not flipped else arms.get(0)
            if arms is not None and match_arm is not None:
                okc, r = util.continue_only(cfg, match_arm, region, header)
                if okc:
                    n_blank += 1
                else:
                    out.viol("C08.blank", "C08.match-continue", ctx.where(vb), "a matching line does not continue with the next line: later failing lines would be missed")
        out.inst("C08.arg", n_arg, 3, ["is_match(line.trim())"])
        out.inst("C08.blank", n_blank, 3, ["blank -> continue", "match -> continue"])

        # ------------------------------------------------------------------ C08.first
        n_first = linelevel.first_wins(ctx, out, "C08.first", vb, region, header, pushes, "line-pattern")
        out.inst("C08.first", n_first, 1, ["push -> leaves the line loop"])

    # ------------------------------------------------------------------ C08.pattern
    n_pat = 0
    news = [(bi, t) for bi, t in vb.calls() if callee_matches(t, r"regex::Regex::new$")]
    for bi, t in news:
        la = ctx.prov.read_operand(vb, t["args"][0])
        # the pattern is the attribute's text as written: whatever containers / iterators the block travelled
        # through, no call that changes a string lies between the attribute and the compilation
        calls = sorted({l[1] for l in la if l[0] == "call" and re.search(
            r"<impl str>::(trim\w*|strip_\w+|to_\w+case|to_lowercase|to_uppercase|replace\w*|split\w*|get|lines|chars|repeat|escape_\w+)$|Index<.*> for str>::index$|string::String::(push\w*|insert\w*|truncate|remove|replace_range|retain|drain)$|alloc::fmt::format|regex::escape$|Cow<.*>::(into_owned|to_mut)$|ops::Add<&str>>::add$", l[1])})
        if P.has_const(la, NAME) and not calls:
            n_pat += 1
        else:
            out.viol("C08.pattern", "C08.pattern|source", ctx.where(vb, t["span"]),
                     "the regex is compiled from [%s]; expected the `line-pattern` attribute text itself, unmodified" % util.origins_text(la, 5))
        if region is not None and bi in region:
            out.viol("C08.pattern", "C08.pattern|in-loop", ctx.where(vb, t["span"]), "the regex is compiled inside the line loop: an uncompilable pattern on an empty block would go unreported")
        else:
            n_pat += 1
    out.inst("C08.pattern", n_pat, 2, ["re := Regex::new(attr['line-pattern'])? before the line loop"])

    shared.sh_err(ctx, out, ctx.validator_bodies(NAME), floor=5)
    shared.sh_state(ctx, out, NAME)
    shared.sh_visit(ctx, out, NAME)
    # the validator's diagnostics survive the merge with other validators' (append-only), and the
    # attribute text reaches it unmodified (comment delimiters are blanked exactly once)
    shared.sh_merge(ctx, out, ctx.reachable_bodies())
    from rules.C03 import check_blank
    check_blank(ctx, out)
    # the validator only runs if the lazy detection loop creates it: every pending detector is asked
    # about every block (shared with C11/C13/C14)
    from rules.C14 import check_once as _detect_once, detect_fn as _detect_fn
    _dv = _detect_fn(ctx)
    if _dv is not None:
        _detect_once(ctx, out, _dv, rule="C08.detect")
    else:
        out.inst("C08.detect", 0, 4)
    # what the rule judges is the text between the tags: the content's ends and its byte range (shared with C03 / C04)
    from rules.C03 import check_content as _check_content
    shared.run_renamed(out, lambda o: _check_content(ctx, o), "C03", "C08")
    from rules.C04 import check_content_range as _check_content_range
    _check_content_range(ctx, out, rule="C08.contentrange")
    # a block is only judged if its file is parsed at all: no successful return of the file parser without parsing but
    # "no grammar for this name" (shared with C12)
    from rules.C12 import check_noskip as _check_noskip
    _check_noskip(ctx, out, "C08.noskip")
    # what a validator found is only reported if the report keeps every violation (shared with C11)
    from rules.C11 import check_items as _check_items
    shared.run_renamed(out, lambda o: _check_items(ctx, o), "C11", "C08")
    from rules.shared import check_detect_cases
    check_detect_cases(ctx, out, ["line-pattern"], rule="C08.detectcase")
    from rules.C10 import check_line_base
    check_line_base(ctx, out, "line-pattern", "C08.line", index_by_model=decided is not None)
    shared.sh_flags(ctx, out, "line-pattern", "C08.flags")
    return meta()


def meta():
    return {
        "explanation": "Decides the control skeleton of line-pattern on every path of the validator's MIR: is_match is applied to line.trim() of each content line, blank and matching lines continue the scan, the violation is pushed iff is_match is false and then the loop is left, the pattern is the attribute text compiled before the loop, the enumerate index counts all content lines, no state across blocks, no swallowed Result. It decides these structural parts, not the outcome of a regex on a concrete line.",
        "undecided": "regex semantics and Unicode whitespace classification of str::trim on runtime values.",
        "assumptions": [],
    }
