"""C03 — Blocks are exactly the tag pairs written in comments, in every language.

The core of the property — which byte ranges each of the 23 generated grammars reports as comments —
is a property of generated C parsers and is NOT decided. Decided structural parts:
 kinds    every node kind a grammar module compares against exists as a named node type of the
          grammar it builds its parser from (node-types.json of the pinned grammar crate), and every
          comment-like kind of that grammar is handled or is a listed exception;
 blank    delimiter blanking is length preserving (replacen(P, R, 1) with |P| = |R| = spaces; the three
          hand-written normalisers search, blank and skip the same delimiter lengths), so tag offsets
          map back to source positions;
 content  the content byte range and position range are built from the same comment ends;
 rebase   nested (Markdown HTML) comments are translated by row, byte AND first-row column, and the
          first-row test is made before the row is translated;
 order    blocks are sorted by full start position; Markdown merges its two sorted lists; LIFO pairing.
"""
import glob
import json
import os
import re

from engine.cfg import cfg_of
from engine.expr import render, walk, find_calls
from engine.facts import callee_name, callee_matches
from engine import prov as P
from engine import luamodel
from rules import shared, util
from rules.C16 import extract_table, module_language

# comment-like kinds that are deliberately not comment sources, with the reason
KIND_EXCEPTIONS = {
    ("rust", "doc_comment"): "child of line_comment / block_comment (the doc text); the parent node is handled",
    ("rust", "inner_doc_comment_marker"): "child marker node of a doc comment; the parent node is handled",
    ("rust", "outer_doc_comment_marker"): "child marker node of a doc comment; the parent node is handled",
    ("javascript", "html_comment"): "legacy `<!--` script comments; not a documented comment form",
    ("typescript", "html_comment"): "legacy `<!--` script comments; not a documented comment form",
    ("tsx", "html_comment"): "legacy `<!--` script comments; not a documented comment form",
    ("css", "js_comment"): "`//` comments are not CSS; the grammar only tolerates them",
    ("sql", "comment_statement"): "the SQL statement COMMENT ON …, not a source comment",
    ("sql", "keyword_comment"): "the keyword COMMENT, not a source comment",
    ("swift", "multiline_comment"): "handled: see kinds extracted",
}

GRAMMAR_DIR = {
    "tree_sitter_typescript::LANGUAGE_TYPESCRIPT": ("tree-sitter-typescript", "typescript/src"),
    "tree_sitter_typescript::LANGUAGE_TSX": ("tree-sitter-typescript", "tsx/src"),
    "tree_sitter_php::LANGUAGE_PHP": ("tree-sitter-php", "php/src"),
    "tree_sitter_php::LANGUAGE_PHP_ONLY": ("tree-sitter-php", "php_only/src"),
    "tree_sitter_md::LANGUAGE": ("tree-sitter-md", "tree-sitter-markdown/src"),
    "tree_sitter_md::INLINE_LANGUAGE": ("tree-sitter-md", "tree-sitter-markdown-inline/src"),
    "tree_sitter_xml::LANGUAGE_XML": ("tree-sitter-xml", "xml/src"),
    "tree_sitter_xml::LANGUAGE_DTD": ("tree-sitter-xml", "dtd/src"),
}


def node_types(lang_const, vers):
    crate_mod = lang_const.split("::")[0]
    if lang_const in GRAMMAR_DIR:
        crate, sub = GRAMMAR_DIR[lang_const]
    else:
        crate, sub = crate_mod.replace("_", "-"), "src"
    v = vers.get(crate)
    if not v:
        raise luamodel.ModelError("crate %s not in Cargo.lock" % crate)
    d = luamodel.registry_dir(crate, v[0])
    path = os.path.join(d, sub, "node-types.json")
    data = json.load(open(path))
    return {x["type"] for x in data if x.get("named")}, path


def module_kinds(ctx, mod):
    """Node-kind strings a grammar module compares `Node::kind()` against (directly, or by passing
    them to one of the shared comment-parser constructors)."""
    kinds = set()
    helper_args = set()
    for b in ctx.facts.bodies.values():
        if b.promoted is not None or not b.id.startswith("blockwatch::language_parsers::%s::" % mod) or "::tests::" in b.id:
            continue
        E = ctx.expr(b)
        for bi, t in b.calls():
            nm = callee_name(t)
            if re.search(r"PartialEq.*>::(eq|ne)$", nm):
                es = [E.operand(a) for a in t["args"]]
                if any(find_calls(e, r"tree_sitter::Node::<'tree>::kind$|tree_sitter::Node::kind$") for e in es):
                    for e in es:
                        if e[0] == "const" and isinstance(e[1], str):
                            kinds.add(e[1])
            cb = ctx.facts.body(t.get("res") or "")
            if cb is not None and re.match(r"blockwatch::language_parsers::\w+_comments_parser$", cb.id):
                for a in t["args"]:
                    v = util.const_val(ctx, b, a)
                    if isinstance(v, str):
                        kinds.add(v)
                        helper_args.add(v)
                    else:
                        # a table of (node kind, normaliser) pairs built in place
                        for x in walk(E.operand(a)):
                            if x[0] == "const" and isinstance(x[1], str) and re.match(r"^[a-z_]+$", x[1]):
                                kinds.add(x[1])
                                helper_args.add(x[1])
            if callee_matches(t, r"^tree_sitter::Query::new$") and len(t["args"]) > 1:
                q = util.const_val(ctx, b, t["args"][1])
                if isinstance(q, str):
                    for m in re.finditer(r"\((\w+)\)", q):
                        kinds.add(m.group(1))
    return kinds


def check_kinds(ctx, out):
    n = 0
    lp, rows = extract_table(ctx)
    mods = sorted({m for k, m, sp in rows if m})
    vers = luamodel.lock_versions(os.environ.get("BW_REPO", "/repo"))
    samples = []
    for mod in mods:
        langs = sorted(module_language(ctx, mod))
        kinds = module_kinds(ctx, mod)
        if not kinds:
            out.viol("C03.kinds", "C03.kinds|%s|no-kinds" % mod, "-", "no node kind comparison found in grammar module `%s`" % mod)
            continue
        named_all = set()
        per_lang = {}
        for l in langs:
            try:
                nt, path = node_types(l, vers)
            except Exception as e:
                out.viol("C03.kinds", "C03.kinds|%s|node-types" % mod, "-", "node-types.json of %s could not be read: %s" % (l, e))
                continue
            per_lang[l] = nt
            named_all |= nt
        for k in sorted(kinds):
            if k in named_all:
                n += 1
            else:
                out.viol("C03.kinds", "C03.kinds|%s|unknown-kind|%s" % (mod, k), "-",
                         "grammar module `%s` waits for node kind %r, which is not a named node type of %s: no comment would ever be found" % (mod, k, langs))
        # every comment-like kind of the module's primary grammar is handled or tabled
        for l, nt in per_lang.items():
            if mod == "markdown" and "html" in l:
                continue
            for k in sorted(x for x in nt if "comment" in x.lower() or x == "marginalia"):
                if k in kinds:
                    continue
                if (mod, k) in KIND_EXCEPTIONS:
                    out.exception("C03.kinds|%s|%s" % (mod, k), KIND_EXCEPTIONS[(mod, k)])
                    continue
                out.viol("C03.kinds", "C03.kinds|%s|unhandled|%s" % (mod, k), "-",
                         "grammar %s has a comment-like node kind %r that module `%s` neither handles nor lists as an exception: tags in such comments would be missed" % (l, k, mod))
        samples.append("%s: %s ⊆ %s" % (mod, sorted(kinds), [l.split("::")[0] for l in langs]))
    out.inst("C03.kinds", n, 26, samples[:6], exhaustive=True, note="%d grammar modules; node kinds checked against the pinned grammars' node-types.json" % len(mods))


def check_blank(ctx, out):
    n = 0
    banned = []         # length-changing str calls inside closures: fine only inside a function proven below
    proven = set()
    # (1) replacen sites
    for b in ctx.reachable_bodies():
        if "language_parsers" not in b.id:
            continue
        for bi, t in b.calls():
            if callee_matches(t, r"<impl str>::replacen$"):
                pat = util.const_val(ctx, b, t["args"][1])
                rep = util.const_val(ctx, b, t["args"][2])
                cnt = util.const_val(ctx, b, t["args"][3])
                if isinstance(pat, str) and isinstance(rep, str) and len(pat.encode()) == len(rep.encode()) and set(rep) <= {" "} and cnt == 1:
                    n += 1
                else:
                    out.viol("C03.blank", "C03.blank|%s|replacen|%r" % (b.id, pat), ctx.where(b, t["span"]),
                             "`replacen(%r, %r, %r)` does not blank the delimiter with the same number of spaces exactly once: every tag offset after it no longer maps to its source position" % (pat, rep, cnt))
            elif callee_matches(t, r"<impl str>::replace$"):
                out.viol("C03.blank", "C03.blank|%s|replace-all" % b.id, ctx.where(b, t["span"]),
                         "comment text is passed through `str::replace`, which rewrites EVERY occurrence of the pattern: besides the comment's own delimiter, the same characters inside the comment - in a tag's attribute values (`name=\"a//b\"`, `line-pattern=\"^https://\"`) - are altered, so attributes are no longer reported as written (only the leading delimiter may be blanked: `replacen(.., 1)`)")
            elif callee_matches(t, r"<impl str>::(trim_start_matches|trim_matches|strip_prefix|trim_start|trim)$") and "{closure" in b.id:
                banned.append((b, t))
    # (2) the hand-written normalisers: on every path that returns the rewritten text, the pieces pushed
    # add up to the length of the input text - decided symbolically (engine/lensym.py)
    from engine import lensym
    lp = [b for b in ctx.reachable_bodies() if "language_parsers" in b.id and b.promoted is None]
    cands = [b for b in lp if any(callee_name(t).split("::")[-1] == "push_str" for bi, t in b.calls())]
    # an appender (all its pieces go onto a `&mut String` parameter, nothing is returned) is a fragment of
    # its callers' normalisers: the identity is decided there, with the appender inlined - provided every
    # caller is one of the functions analysed here
    analysed = list(cands)
    for b in list(cands):
        tgt = {util.base_local(b, t["args"][0]) for bi, t in b.calls() if re.search(r"std::string::String::(push_str|push)$", callee_name(t)) and t["args"]}
        if not tgt or not all(1 <= l <= b.argc and re.match(r"&mut std::string::String$", b.locals[l].get("ty") or "") for l in tgt):
            continue
        callers = [c for c in ctx.reachable_bodies() if c.id != b.id and any(callee_matches(t, re.escape(b.id) + "$") for bi, t in c.calls())]
        if callers and all(c in lp for c in callers):
            analysed.remove(b)
            for c in callers:
                if c not in analysed:
                    analysed.append(c)
    for b in analysed:
        # the identity is a proof obligation: it is discharged if it can be shown on either reading of
        # the function (helpers inlined; or the fully normalised view, where tuples / Options returned
        # by helpers are taken apart)
        rep = bad = None
        for v in (ctx.inl(b, tag="all"), ctx.inl(b, skip=ctx.domain_api, tag="domain", sugar=True)):
            rep1 = lensym.normaliser_report(ctx, v)
            bad1 = [m for ok, m in rep1 if not ok]
            if rep is None or (rep1 and not bad1):
                rep, bad = rep1, bad1
            if rep and not bad:
                break
        for i, m in enumerate(sorted(set(bad))):
            out.viol("C03.blank", "C03.blank|%s|length|%d" % (b.id, i), ctx.where(b),
                     "comment normaliser `%s` is not length-preserving: %s" % (b.name if b.kind != "Closure" else b.id.split("::")[-2] + " visitor", m))
        if rep and not bad:
            n += 1
            proven.add(b.id)
    # (2b) normalisers that compute the rewritten text as an expression (`" ".repeat(k) + rest`,
    # `[a, "  ", b].concat()`): the returned String has the length of the text parameter
    for b in lp:
        if b in analysed or b.kind not in ("Fn", "AssocFn") or not re.match(r"(std::option::Option<)?std::string::String>?$", b.local_ty(0)):
            continue
        v = ctx.inl(b, skip=ctx.domain_api, tag="domain", sugar=True)
        if not any(re.search(r"ops::Add<&str>>::add$|<impl \[T\]>::concat$|Concat<str>>::concat$|<impl str>::repeat$", callee_name(t)) for bi, t in v.calls()):
            continue
        rep = lensym.expr_len_report(ctx, v)
        bad = [m for ok, m in rep if not ok]
        for i, m in enumerate(sorted(set(bad))):
            out.viol("C03.blank", "C03.blank|%s|length|%d" % (b.id, i), ctx.where(b), "comment normaliser `%s` is not length-preserving: %s" % (b.name, m))
        if rep and not bad:
            n += 1
            proven.add(b.id)
    for b, t in banned:
        root = b.id.split("::{closure")[0]
        if root in proven:
            continue        # the closure is part of a function whose result was proven to keep the length
        out.viol("C03.blank", "C03.blank|%s|%s" % (b.id, callee_name(t).split("::")[-1]), ctx.where(b, t["span"]),
                 "a comment visitor uses `%s`, which changes the text's length: tag offsets would no longer map to source positions" % callee_name(t).split("::")[-1])
    out.inst("C03.blank", n, 6, note="replacen sites (same-length single replacement) + hand-written normalisers (symbolic length accounting on every returning path)")


TEXT_TRANSFORM = r"(<impl str>::(strip_prefix|strip_suffix|trim\w*|replace\w*|to_\w*case|split\w*|get|get_unchecked|lines|chars|char_indices|repeat|escape_\w+|to_lowercase|to_uppercase|nfc|nfd)|ops::Index<.*>>?::index|str::traits::<impl .*Index<.*> for str>::index|String::(from_utf8_lossy|from_utf8|truncate|drain|split_off|replace_range|remove|insert\w*|push\w*|retain)|Cow<.*>::(into_owned|to_mut)|encoding\w*::)$"


def check_sametext(ctx, out, rule="C03.sametext"):
    """One text, one coordinate system: the string handed to the language parser (and, inside it, to
    tree-sitter) is the file's text exactly as read - not a stripped, trimmed, re-encoded or sliced
    copy - and it is the same string that is kept as `file_content` and later sliced by the blocks'
    byte ranges. (A byte order mark removed on one side only shifts every content range by three
    bytes: wrong content, wrong counts, or a slice inside a character.)"""
    n = 0
    from rules.C12 import file_parser
    # (1) tree-sitter sees the parameter text unchanged
    for b in ctx.reachable_bodies():
        if b.promoted is not None:
            continue
        for bi, t in b.calls():
            if callee_matches(t, r"^tree_sitter::Parser::parse$") and len(t["args"]) >= 2:
                labs = ctx.prov.resolve_upvars(b, ctx.prov.read_operand(b, t["args"][1]))
                bad = sorted({l[1].split("::")[-1] for l in labs if l[0] == "call" and re.search(TEXT_TRANSFORM, l[1])})
                if bad:
                    out.viol(rule, "%s|%s|tree-sitter-input" % (rule, b.id), ctx.where(b, t["span"]),
                             "the text handed to tree_sitter::Parser::parse has passed through %s: node byte offsets then refer to a different string than the one the comments and the block contents are sliced from" % bad)
                elif any(l[0] == "param" for l in labs):
                    n += 1
    # (2) the file parser: parse(text) and file_content are the text as read
    fp = file_parser(ctx)
    if fp is not None:
        v = ctx.inl(fp, skip=ctx.domain_api, tag="domain", sugar=True)
        for body in (fp, v):
            srcs = []
            for bi, t in body.calls():
                if callee_matches(t, r"block_parser::BlocksParser::parse$") and len(t["args"]) >= 2:
                    srcs.append(("the text handed to BlocksParser::parse", t["args"][1], t["span"]))
            for bi, j, s in body.assigns():
                rv = s["rv"]
                if rv["k"] == "agg" and rv.get("agg") == "adt" and (rv.get("path") or "").endswith("blocks::FileBlocks"):
                    names = rv.get("fields") or []
                    if "file_content" in names:
                        srcs.append(("FileBlocks.file_content", rv["ops"][names.index("file_content")], s["span"]))
            ok_here = 0
            for what, op, span in srcs:
                labs = ctx.prov.read_operand(body, op)
                bad = sorted({l[1].split("::")[-1] for l in labs if l[0] == "call" and re.search(TEXT_TRANSFORM, l[1])})
                if bad:
                    out.viol(rule, "%s|%s" % (rule, "parse-input" if "parse" in what else "file-content"), ctx.where(body, span),
                             "%s has passed through %s: it is no longer the file's text as read, while the other side (the parsed text / the text the blocks' byte ranges are applied to) still is" % (what, bad))
                elif P.has_call(labs, r"FileSystem::read_to_string$|fs::read_to_string$"):
                    ok_here += 1
            if body is fp:
                n += ok_here
    # (3) the reader hands on the file's bytes as they are (strict UTF-8), not a repaired copy
    for b in ctx.reachable_bodies():
        if b.promoted is None and re.search(r"FileSystemImpl as blockwatch::blocks::FileSystem>::read_to_string$", b.id):
            labs = ctx.prov.read_local(b, 0, ())
            for q in (("0",),):
                labs = labs | ctx.prov.read_local(b, 0, q)
            bad = sorted({l[1].split("::")[-1] for l in labs if l[0] == "call" and re.search(TEXT_TRANSFORM, l[1])})
            calls = {callee_name(t).split("::")[-1] for _, t in b.calls()}
            lossy = sorted(c for c in calls if c in ("from_utf8_lossy", "from_utf8_unchecked", "decode", "decode_without_bom_handling"))
            if bad or lossy:
                out.viol(rule, "%s|reader" % rule, ctx.where(b),
                         "the file reader returns text that passed through %s: what is parsed and reported on is no longer byte for byte the file (a replaced byte changes every column after it on its line)" % (bad or lossy))
            elif any(callee_matches(t, r"^std::fs::read_to_string$") for _, t in b.calls()):
                n += 1
    out.inst(rule, n, 4, note="tree-sitter input = parameter text; parser input and file_content = text as read; reader = fs::read_to_string")


def check_visitors(ctx, out, rule="C03.visitor"):
    """A node visitor (`|node, source| -> Option<String>`) leaves a node out only because of its *kind*: on
    every path that returns `None`, the conditions that led there consult the node through `Node::kind()` only (and its text, through its byte range).
    A further test of the node (`is_extra`, `is_named`, `parent`, a position, a child count ...) drops comments
    that the grammar happens to parse differently in some place - their tags would be invisible."""
    n = 0
    vis = []
    for b in ctx.reachable_bodies():
        if b.promoted is not None or b.kind != "Closure" or not b.id.startswith("blockwatch::language_parsers::"):
            continue
        if b.argc == 3 and "tree_sitter::Node<" in b.local_ty(2) and re.match(r"&('\w+ )?str$", b.local_ty(3)) and b.local_ty(0).startswith("std::option::Option<std::string::String>"):
            vis.append(b)
    for b0 in vis:
        v = ctx.inl(b0, skip=lambda cb: False, tag="all-sugar", sugar=True)
        cfg = cfg_of(v)
        slots = util.return_slots(v)
        bad = None
        drops = 0
        for bi, j, s in v.assigns():
            rv = s["rv"]
            if bi in cfg.reachable and s["lhs"]["l"] in slots and not s["lhs"]["p"] and rv["k"] == "agg" and rv.get("agg") == "adt" and rv.get("variant") in ("None", 0) and (rv.get("path") or "").endswith("option::Option"):
                drops += 1
                # every branch the drop is control dependent on, directly or through other branches (a drop that
                # is reached on both arms of a test - `a && b` false because of a, or because of b - still
                # depends on that test), and - for a tested flag computed on several paths - what each value is
                from engine.cfg import dag_of
                dag = dag_of(v)
                exprs = []
                todo = [bi]
                seen_b = set()
                while todo:
                    x = todo.pop()
                    if x in seen_b or len(seen_b) > 60:
                        continue
                    seen_b.add(x)
                    for br, succ in dag.control_deps(x):
                        tt = v.blocks[br]["term"]
                        if not tt or tt["k"] != "switch":
                            continue
                        exprs.append(util.switch_operand_expr(ctx, v, br))
                        if br != x:
                            todo.append(br)
                        pl = tt["op"].get("c") or tt["op"].get("m")
                        if pl is not None and not pl["p"]:
                            ds = [d for d in v.defs().get(pl["l"], []) if d[0] in ("stmt", "call")]
                            if len(ds) > 1:
                                todo.extend(d[1] for d in ds)
                                for d in ds:
                                    if d[0] == "stmt":
                                        exprs.append(ctx.expr(v).rvalue(d[3]["rv"]))
                for e in exprs:
                    for c in walk(e):
                        if c[0] == "call" and re.search(r"^tree_sitter::Node::<'tree>::|^tree_sitter::Node::", c[1]) and not re.search(r"::(kind|byte_range|start_byte|end_byte|utf8_text)$", c[1]):
                            bad = (s, c[1].split("::")[-1])
        if bad is not None:
            out.viol(rule, "%s|%s|%s" % (rule, b0.id, bad[1]), ctx.where(v, bad[0]["span"]),
                     "the node visitor leaves a node out depending on `Node::%s`: a comment is recognised by its node kind alone; with a further condition the comments for which it does not hold (the grammar parses comments differently in some positions) are never scanned for tags" % bad[1])
        elif drops:
            n += 1
    out.inst(rule, n, 3, [b.id for b in vis][:4], note="node visitors: every `None` is reached through `Node::kind()` tests only")


def check_content(ctx, out):
    n = 0
    cands = [b for b in ctx.reachable_bodies() if b.promoted is None and b.local_ty(0) == "blockwatch::blocks::Block" and any(callee_matches(t, r"blocks::Block::new$") for bi, t in b.calls())]
    for b in cands:
        for bi, t in b.calls():
            if not callee_matches(t, r"blocks::Block::new$"):
                continue
            pl_r = util.op_place(t["args"][2])
            pl_p = util.op_place(t["args"][3])
            rs = ctx.prov.read_place(b, {"l": pl_r["l"], "p": pl_r["p"] + [{"f": "start"}]})
            re_ = ctx.prov.read_place(b, {"l": pl_r["l"], "p": pl_r["p"] + [{"f": "end"}]})
            ps = ctx.prov.read_place(b, {"l": pl_p["l"], "p": pl_p["p"] + [{"f": "start"}]})
            pe = ctx.prov.read_place(b, {"l": pl_p["l"], "p": pl_p["p"] + [{"f": "end"}]})

            def owner(labs, *path):
                return {l[1] for l in labs if l[0] == "param" and P.has_path({l}, *path)}
            a = owner(rs, "comment", "source_range", "end")
            bb = owner(re_, "comment", "source_range", "start")
            c = owner(ps, "comment", "position_range", "end")
            d = owner(pe, "comment", "position_range", "start")
            if a and bb and c and d and a == c and bb == d and a != bb:
                n += 1
            else:
                out.viol("C03.content", "C03.content|ends", ctx.where(b, t["span"]),
                         "content bytes = (param%s.comment.source_range.end .. param%s.comment.source_range.start) but content positions = (param%s.comment.position_range.end .. param%s.comment.position_range.start): both must run from the END of the start-tag comment to the START of the end-tag comment" % (sorted(a), sorted(bb), sorted(c), sorted(d)))
            # attributes and tag range come from the start
            al = ctx.prov.read_operand(b, t["args"][0])
            tl = ctx.prov.read_operand(b, t["args"][1])
            if P.has_path(al, "attributes") and P.has_path(tl, "start_tag_position_range") and {l[1] for l in al if l[0] == "param"} == a:
                n += 1
            else:
                out.viol("C03.content", "C03.content|start-data", ctx.where(b, t["span"]), "the block's attributes / tag range are not taken from its start tag")
    out.inst("C03.content", n, 2, ["content := start.comment.end .. end.comment.start (bytes and positions)"])


def check_rebase(ctx, out, rule="C03.rebase"):
    n = 0
    found = False
    md = [b for b in ctx.reachable_bodies() if "language_parsers::markdown" in b.id and b.promoted is None]
    called = {(t.get("res") or "") for b in md for _, t in b.calls()}
    for b0 in md:
        if b0.id in called:
            continue        # helpers are read through their callers (inlined view)
        b = ctx.inl(b0, tag="all")
        writes = {}
        for bi, j, s in b.assigns():
            lhs = s["lhs"]
            fields = tuple(e["f"] for e in lhs["p"] if isinstance(e, dict) and "f" in e)
            if fields and fields[-1] in ("line", "character") and "position_range" not in fields and lhs["p"] and lhs["p"][0] == "deref":
                # written through a reference (`let r = &mut comment.position_range;`, a `&mut Position`
                # parameter of an inlined helper): name the storage the reference designates
                root, bf = util.base_path(b, {"l": lhs["l"], "p": []})
                fields = tuple(bf) + fields
            labs = None
            if len(fields) >= 3 and fields[-3] == "position_range" and fields[-1] in ("line", "character"):
                labs = ctx.prov.resolve_upvars(b, ctx.prov.read_operand(b, s["rv"]["op"])) if s["rv"]["k"] == "use" else set()
                writes[(fields[-2], fields[-1])] = (bi, j, s, labs)
            elif fields and fields[-1] in ("line", "character") and lhs["p"] and lhs["p"][0] == "deref":
                # the reference may designate several cells (`for p in [&mut r.start, &mut r.end] { p.line += .. }`):
                # the write reaches each of them (points-to sets of the provenance analysis)
                for (cl, cp) in ctx.prov._targets(b, ctx.prov.env(b), lhs):
                    if len(cp) >= 3 and cp[-3] == "position_range" and cp[-1] in ("line", "character"):
                        if labs is None:
                            labs = ctx.prov.resolve_upvars(b, ctx.prov.read_operand(b, s["rv"]["op"])) if s["rv"]["k"] == "use" else set()
                        writes.setdefault((cp[-2], cp[-1]), (bi, j, s, labs))
        if not writes:
            continue
        found = True
        cfg = cfg_of(b)
        for pos in ("start", "end"):
            wl = writes.get((pos, "line"))
            wc = writes.get((pos, "character"))
            if wl is None:
                out.viol(rule, "%s|" % rule + "%s|line" % pos, ctx.where(b), "nested comments' %s line is not translated into the parent document" % pos)
                continue
            if wc is None:
                out.viol(rule, "%s|" % rule + "%s|column" % pos, ctx.where(b),
                         "nested comments are translated by row but their %s column is not: a comment in an indented HTML block (list item, block quote) is reported at the wrong column" % pos)
                continue
            labs = wc[3]
            if P.has_call(labs, r"tree_sitter::Node::<'tree>::start_position$") and P.has_path(labs, "column"):
                n += 1
            else:
                out.viol(rule, "%s|" % rule + "%s|column-source" % pos, ctx.where(b, wc[2]["span"]), "the %s column offset does not come from the HTML block's start column" % pos)
            # guard: first row only, tested before the row is translated
            gs = util.guards(ctx, b, wc[0])
            gok = False
            for br, vals, e in gs:
                txt = render(e, 400)
                if e[0] == "bin" and e[1] == "Eq" and ("position_range.%s.line" % pos) not in txt:
                    # the tested value is read through a reference: name the storage it designates
                    sp = util.op_place(b.blocks[br]["term"]["op"])
                    sd = b.single_def(sp["l"]) if sp and not sp["p"] else None
                    if sd and sd[0] == "stmt" and sd[3]["rv"]["k"] == "bin":
                        for side in ("a", "b"):
                            ap = util.op_place(sd[3]["rv"][side])
                            ad = b.single_def(ap["l"]) if ap and not ap["p"] else None
                            if ad and ad[0] == "stmt" and ad[3]["rv"]["k"] == "use" and util.op_place(ad[3]["rv"]["op"]):
                                rp = util.op_place(ad[3]["rv"]["op"])
                                own = tuple(x["f"] for x in rp["p"] if isinstance(x, dict) and "f" in x)
                                root, bf = util.base_path(b, {"l": rp["l"], "p": []})
                                txt = txt + " " + ".".join(tuple(bf) + own)
                                if rp["p"] and rp["p"][0] == "deref":
                                    for (cl, cp) in ctx.prov._targets(b, ctx.prov.env(b), rp):
                                        txt = txt + " " + ".".join(cp)
                if e[0] == "bin" and e[1] == "Eq" and ("position_range.%s.line" % pos) in txt and 0 not in vals:
                    c = [x[1] for x in walk(e) if x[0] == "const"]
                    if c == [1]:
                        gok = True
                        # the line write must not precede the test
                        spx = util.op_place(b.blocks[br]["term"]["op"])
                        sdx = b.single_def(spx["l"]) if spx and not spx["p"] else None
                        same_block_after = wl[0] == br and sdx is not None and sdx[0] == "stmt" and sdx[1] == br and wl[1] < sdx[2]
                        if (cfg.dominates(wl[0], br) and wl[0] != br) or same_block_after:
                            gok = False
                            out.viol(rule, "%s|" % rule + "%s|guard-after-row" % pos, ctx.where(b, wc[2]["span"]),
                                     "the first-row test for the %s column is evaluated after the row has been translated to document coordinates: it only holds for HTML blocks on line 1 of the file" % pos)
                            gok = None
            if gok:
                n += 1
            elif gok is False:
                out.viol(rule, "%s|" % rule + "%s|guard" % pos, ctx.where(b, wc[2]["span"]), "the %s column is shifted on rows other than the nested text's first row" % pos)
    if not found:
        out.viol(rule, "%s|" % rule + "anchor", "-", "no translation of nested comment positions found in the Markdown parser")
    out.inst(rule, n, 4, ["start/end: line += row; character += column iff line == 1 (tested before the row shift)"])


CHILD_API = r"tree_sitter::Node::<'tree>::(children|named_children|child|named_child|child_by_field_name|child_by_field_id|children_by_field_name|children_by_field_id|next_sibling|next_named_sibling|prev_sibling|prev_named_sibling|descendant_for_byte_range|named_descendant_for_byte_range|walk)$"


def check_treewalk(ctx, out, rule="C03.walk"):
    """Every node of the syntax tree is offered to the comment visitor. (A) The cursor walk descends
    unconditionally: `goto_first_child` is tried first and is not control-dependent on a node kind or
    on the visitor's answer; after every successful cursor move the current node is visited. (B) Queries
    are run from the tree's root. (C) No hand-written recursion over `Node::children()` that descends
    only into chosen kinds (nodes nested in other containers would never be seen)."""
    n = 0
    samples = []
    lp = [b for b in ctx.reachable_bodies() if b.promoted is None and b.id.startswith("blockwatch::language_parsers") or "language_parsers::" in b.id and b.promoted is None and b.id in ctx.reach]
    MOVE = r"tree_sitter::TreeCursor::<'cursor>::goto_(first_child|next_sibling)$"
    called = {(t.get("res") or "") for b in lp for _, t in b.calls()}
    for b0 in lp:
        if b0.promoted is not None or b0.kind == "Closure" or b0.id in called:
            continue
        # the walker in its inlined view: the cursor moves may sit in a helper (`goto_next_node`)
        b = ctx.inl(b0, tag="all")
        moves = [(bi, t) for bi, t in b.calls() if callee_matches(t, MOVE)]
        if not moves:
            continue
        cfg = cfg_of(b)
        visits = {bi for bi, t in b.calls() if callee_matches(t, r"tree_sitter::TreeCursor::<'cursor>::node$")}
        move_bbs = {bi for bi, t in moves}
        for bi, t in moves:
            nm = callee_name(t).split("::")[-1]
            if nm == "goto_first_child":
                h = cfg.innermost_loop(bi)
                # the outermost loop of the walk: descent must not depend on what the node is
                hs = cfg.loops_containing(bi)
                inloop = set()
                for hh in hs:
                    inloop |= cfg.loops()[hh]
                bad = None
                for br, vals, e in util.guards(ctx, b, bi):
                    if br not in inloop:
                        continue
                    txt = render(e, 400)
                    if re.search(r"Node::kind|is_named|child_count|node_visitor|FnOnce|call_once|Fn::call", txt):
                        bad = txt
                    else:
                        # a flag merged from several tests (`a || b` of an inlined predicate) renders as a bare
                        # local: decide on what it derives from
                        sop = (b.blocks[br]["term"] or {}).get("op")
                        gl = ctx.prov.read_operand(b, sop) if sop else set()
                        hit = sorted({l[1].split("::")[-1] for l in gl if l[0] == "call" and re.search(r"tree_sitter::Node::<'tree>::(kind|kind_id|is_named|child_count|named_child_count|is_extra|grammar_name)$|Fn(Once|Mut)?>?::call", l[1])})
                        if hit:
                            bad = "a condition derived from the node's %s" % "/".join(hit)
                if bad:
                    out.viol(rule, "%s|%s|conditional-descent" % (rule, b0.id), ctx.where(b0, t["span"]),
                             "the tree walk descends into a node's children only under `%s`: comments nested below other nodes are never visited" % bad[:140])
                else:
                    n += 1
            sw = cfg.succ[bi][0] if cfg.succ[bi] else None
            tt = b.blocks[sw]["term"] if sw is not None else None
            if not tt or tt["k"] != "switch":
                out.viol(rule, "%s|%s|%s|unchecked-move" % (rule, b0.id, nm), ctx.where(b0, t["span"]), "the result of `%s` is not branched on" % nm)
                continue
            arms = util.switch_arms(b, sw)
            moved = arms["otherwise"] if 0 in arms else arms.get(1)
            # from the arrival, another move must not be reachable without a visit in between
            r = cfg.reach(moved, avoid=visits)
            skipped = sorted(x for x in r if x in move_bbs)
            if moved in visits or not skipped:
                n += 1
                samples.append("%s->visit" % nm)
            else:
                out.viol(rule, "%s|%s|%s|unvisited" % (rule, b0.id, nm), ctx.where(b0, t["span"]),
                         "after a successful `%s` the cursor can move on before the node it arrived at is offered to the comment visitor" % nm)
    for b in lp:
        cfg = cfg_of(b)
        E = ctx.expr(b)
        for bi, t in b.calls():
            if callee_matches(t, r"tree_sitter::QueryCursor::(matches|captures)$"):
                labs = ctx.prov.read_operand(b, t["args"][2])
                if P.has_call(labs, r"tree_sitter::Tree::root_node$"):
                    n += 1
                    samples.append("query@root")
                else:
                    out.viol(rule, "%s|%s|query-not-root" % (rule, b.id), ctx.where(b, t["span"]), "the tree-sitter query is not run from the tree's root node: matches outside that node are not found")
            if callee_matches(t, CHILD_API):
                recursive = b.id in ctx.cg.reachable([x for x in ctx.cg.edges.get(b.id, ())] if hasattr(ctx.cg, "edges") else [])
                if not hasattr(ctx.cg, "edges"):
                    recursive = any((t3.get("res") or "") == b.id for _, t3 in b.calls())
                kinds = [util.const_val(ctx, b, a) for _, t3 in b.calls() if callee_matches(t3, r"PartialEq.*>::eq$|<impl str>::eq$") for a in t3["args"]]
                uses_kind = any(callee_matches(t3, r"tree_sitter::Node::<'tree>::kind(_id)?$") for _, t3 in b.calls())
                if recursive and uses_kind:
                    out.viol(rule, "%s|%s|partial-recursion" % (rule, b.id), ctx.where(b, t["span"]),
                             "`%s` walks the tree by hand with `%s` and chooses by node kind where to descend: nodes of the wanted kind that are nested inside other containers (list items, block quotes, ...) are never reached; use a query from the root or descend into every child" % (b.name, callee_name(t).split("::")[-1]))
    # (the anchor: an unconditional descent and the two kinds of forward move, each followed by a visit - a walk
    # written with fewer call sites than today's is the same walk)
    out.inst(rule, n, 3, samples[:6], note="cursor moves followed by a visit; unconditional descent; queries from the root")


def check_order(ctx, out):
    n = 0
    from rules.C12 import pairing_fn
    pf = pairing_fn(ctx)
    # Markdown: merge of two sorted lists
    for b in ctx.reachable_bodies():
        if "language_parsers::markdown" in b.id and b.name == "parse" and b.impl_trait and b.impl_trait.endswith("BlocksParser"):
            calls = [callee_name(t) for bi, t in b.calls()]
            if any(re.search(r"itertools::Itertools::merge$|Itertools::merge_by$|kmerge", c) for c in calls):
                n += 1
            elif any(re.search(r"::(sort|sort_by|sort_by_key)$", c) for c in calls):
                n += 1
            else:
                out.viol("C03.order", "C03.order|markdown-merge", ctx.where(b), "Markdown's two block lists ([//]: comments and HTML comments) are combined without an order-preserving merge or a sort: blocks are not reported in source order")
    from rules.C20 import check_block_sort
    n += 1 if check_block_sort(ctx, out, "C03.order") == 2 else 0
    out.inst("C03.order", n, 2, ["pairing fn sorts by start position (C20.sorted checks the key); Markdown merges"])


def run(ctx, out, tier):
    check_visitors(ctx, out)
    check_kinds(ctx, out)
    check_blank(ctx, out)
    check_content(ctx, out)
    check_rebase(ctx, out)
    check_order(ctx, out)
    check_treewalk(ctx, out)
    # a comment is only found if the file is parsed with its own language's grammar (shared with C16),
    # and a tag inside a multi-line comment is placed by the last newline before it (shared with C10)
    from rules.C16 import check_grammar, extract_table
    lp, rows = extract_table(ctx)
    mods = sorted({m for k, m, sp in (rows or []) if m})
    check_grammar(ctx, out, mods, rule="C03.grammar")
    from rules.C10 import check_tagpos
    check_tagpos(ctx, out, "C03.tagpos")
    shared.sh_traverse(ctx, out)
    shared.sh_units(ctx, out)
    check_sametext(ctx, out)
    from rules.C10 import check_tagoffset
    check_tagoffset(ctx, out, rule="C03.tagoffset")
    # tags are found at any offset: the scanner gives up only at the exact end of the text (shared with C12)
    from rules.C12 import check_scanner_end
    check_scanner_end(ctx, out, "C03.scan")
    # the content byte range is empty only for a block opened and closed in one comment (shared with C04)
    from rules.C04 import check_content_range
    check_content_range(ctx, out, rule="C03.contentrange")
    return meta()


def meta():
    return {
        "explanation": "Decides structural necessary conditions only: node kinds vs the pinned grammars' node-types.json (every compared kind exists; every comment-like kind handled or excepted), length-preserving delimiter blanking (constants of replacen and of the three hand-written normalisers), same-ends construction of content byte and position ranges, complete (row, byte, first-row column) translation of nested Markdown HTML comments with the first-row test before the row shift, sorted / merged block order. WHAT each generated grammar reports as a comment for a given input is not decided by this check.",
        "undecided": "comment extraction by the 23 generated tree-sitter parsers and their external scanners; full length preservation of the hand-written normaliser loops (arithmetic).",
        "assumptions": ["node-types.json in the cargo registry describes the grammar that is linked"],
    }
