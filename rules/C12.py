"""C12 — Unbalanced block tags are a hard error, never a silent skip.

Decided: in the pairing function an end tag with an empty stack leads only to `return Err`, a
non-empty stack after the scan leads only to `return Err`, the stack is used only through
push/pop; every BlocksParser::parse impl obtains its blocks from the pairing function; the file
parser attaches the file path to the error and can return without parsing only when the file name has
no grammar; the tag scanner gives up only at the end of the text (no slack in the bound) or when no
`<` is left; no error of the tag iterator is swallowed; both call sites of the file parser and main
propagate (SH.err, SH.main).
Not decided: that every tag of every language reaches the pairing function (C03's undecided part).
"""
import re

from engine.cfg import cfg_of
from engine.expr import render, walk, find_calls
from engine.facts import callee_name, callee_matches
from engine import prov as P
from rules import shared, util


def pairing_fn(ctx):
    c = []
    for b in ctx.facts.bodies.values():
        if b.promoted is not None or b.kind != "Fn" or b.id not in ctx.reach:
            continue
        if b.local_ty(0).startswith("std::result::Result<std::vec::Vec<blockwatch::blocks::Block>"):
            # read in the normalised view: the stack may live in a small struct with `open` / `close`
            # methods, the tag loop may be a `try_for_each`
            v = ctx.inl(b, skip=ctx.domain_api, tag="domain", sugar=True)
            if any(callee_matches(t, r"Vec::<T, A>::pop$") for bi, t in v.calls()):
                c.append(v)
    return c[0] if len(c) == 1 else None


def file_parser(ctx):
    c = []
    for b in ctx.facts.bodies.values():
        if b.promoted is not None or b.kind != "Fn" or b.id not in ctx.reach:
            continue
        if any(callee_matches(t, r"block_parser::BlocksParser::parse$") for bi, t in b.calls()) and \
                any(callee_matches(t, r"blocks::FileSystem::read_to_string$") for bi, t in b.calls()):
            c.append(b)
    return c[0] if len(c) == 1 else None


def err_blocks(ctx, body):
    return ctx.rf._err_blocks(body)


def only_err_from(ctx, body, start):
    """No path from `start` to a Return that avoids every Err-producing block."""
    cfg = cfg_of(body)
    eb = err_blocks(ctx, body)
    r = cfg.reach(start, avoid=eb)
    return not any(x in cfg.exits for x in r), r


def _keep_table(ctx, v):
    """The walk's `filter` closure on a small model (path-sensitive constant propagation, 3 cases): the entry
    is Ok and a directory -> dropped; Ok and not a directory -> kept; a walker error -> kept (it is reported
    downstream). True / False if every case has one constant answer, None if the model cannot follow."""
    from engine import casewalk as CW
    std = CW.std_hooks()
    want = {("Ok", 1): 0, ("Ok", 0): 1, ("Err", 0): 1}
    for (variant, isdir), keep in want.items():
        def hook(w, bb, t, argv, env):
            if callee_matches(t, r"^std::path::Path::is_dir$"):
                return CW.const(isdir)
            if callee_matches(t, r"^ignore::(walk::)?DirEntry::(path|into_path|file_type|metadata)$"):
                return CW.sym("PATH")
            return std(w, bb, t, argv, env)
        w = CW.Walk(ctx, v, [hook], max_states=4000)
        entry = CW.adt("std::result::Result", variant, 0 if variant == "Ok" else 1, [("0", CW.sym("ENTRY"))])
        results = set()

        def on_visit(bb, env):
            tm = v.blocks[bb]["term"]
            if tm and tm["k"] == "return":
                results.add(env.get(0, CW.TOP))
        w.on_visit = on_visit
        env = {-9: entry}
        # the closure's argument is `&Result<DirEntry, Error>` (filter hands out a reference)
        env[2] = ("ref", -9, (), False)
        try:
            w.explore(0, env)
        except CW.Limit:
            return None
        if len(results) != 1:
            return None
        r = results.pop()
        if not CW.is_const(r):
            return None
        if int(r[1]) != keep:
            return False
    return True


def walk_iterator_next(ctx, wb):
    """When the walk returns an iterator type of the crate's own (a struct built in `walk` that implements
    `Iterator`), that type's `next`."""
    adts = set()
    for bi, j, s in wb.assigns():
        rv = s["rv"]
        if rv["k"] == "agg" and rv.get("agg") == "adt" and (rv.get("path") or "").startswith("blockwatch::"):
            adts.add(rv["path"])
    c = [b for b in ctx.facts.bodies.values() if b.promoted is None and b.kind == "AssocFn" and b.impl_self_adt in adts
         and re.search(r" as std::iter::Iterator>::next$", b.id)]
    return c[0] if len(c) == 1 else None


def _next_table(ctx, nb):
    """A hand-written iterator over the walker's entries on the three-case model: the walker's first item is
    {Ok + directory, Ok + not a directory, an error}, then it ends. Expected: nothing / Some(Ok(..)) /
    Some(Err(..)). True / False if every case has one answer, None if the model cannot follow."""
    from engine import casewalk as CW
    std = CW.std_hooks()
    v = ctx.inl(nb, skip=lambda c: False, tag="all-sugar", sugar=True)
    want = {("Ok", 1): "none", ("Ok", 0): "some-Ok", ("Err", 0): "some-Err"}
    for (variant, isdir), expect in want.items():
        def hook(w, bb, t, argv, env):
            if callee_matches(t, r"^std::path::Path::is_dir$"):
                return CW.const(isdir)
            if callee_matches(t, r"^ignore::(walk::)?DirEntry::(path|into_path|file_type|metadata)$"):
                return CW.sym("PATH")
            if callee_matches(t, r"Iterator>?::next$") and "ignore::Walk" in ((t.get("arg_tys") or [""])[0]):
                w.mut_handled = True
                if env.get(-8) is None:
                    env[-8] = CW.const(1)
                    return CW.adt("std::option::Option", "Some", 1, [("0", CW.adt("std::result::Result", variant, 0 if variant == "Ok" else 1, [("0", CW.sym("ENTRY"))]))])
                return CW.adt("std::option::Option", "None", 0, [])
            return std(w, bb, t, argv, env)
        w = CW.Walk(ctx, v, [hook], max_states=4000)
        results = set()

        def on_visit(bb, env):
            tm = v.blocks[bb]["term"]
            if tm and tm["k"] == "return":
                r0 = env.get(0, CW.TOP)
                if r0[0] == "adt" and r0[2] == "None":
                    results.add("none")
                elif r0[0] == "adt" and r0[2] == "Some":
                    p0 = w.deref_val(env, w.field(r0, "0"))
                    results.add("some-%s" % p0[2] if p0[0] == "adt" else "?")
                else:
                    results.add("?")
        w.on_visit = on_visit
        try:
            w.explore(0, {1: ("ref", -2, (), True)})
        except CW.Limit:
            return None
        if not results or "?" in results:
            return None
        # (more than one outcome: the outcome depends on something else than the three cases)
        if results != {expect}:
            return False
    return True


def check_walkfiles(ctx, out, rule="C12.walkfiles"):
    """The directory walk hands on every entry it gets from the `ignore` walker except directories:
    in `FileSystemImpl::walk` an entry is dropped (filter_map -> None / filter -> false) only when
    `Path::is_dir(entry.path())` holds — which follows symbolic links, so a linked file is still a
    file — and a walker error is passed on as an error. Any other reason to drop an entry makes a
    file in scope invisible (its unbalanced tags included)."""
    from rules.shared import TRUNCATING
    n = 0
    wb = None
    for b in ctx.facts.bodies.values():
        if b.promoted is None and b.kind == "AssocFn" and re.search(r"^<blockwatch::blocks::FileSystemImpl as blockwatch::blocks::FileSystem>::walk$", b.id):
            wb = b
    if wb is None:
        out.inst(rule, 0, 2, note="FileSystemImpl::walk not found")
        return
    for bi, t in wb.calls():
        if callee_matches(t, TRUNCATING.pattern) or callee_matches(t, r"Iterator::(flat_map|flatten|rev|chain|zip)$"):
            out.viol(rule, "%s|adaptor|%s" % (rule, callee_name(t).split("::")[-1]), ctx.where(wb, t["span"]),
                     "the walker's entries pass through `%s`: entries can be left out" % callee_name(t).split("::")[-1])
    ISDIR = r"^std::path::Path::is_dir$"
    # the walker is the `ignore` crate's standard one: built by Walk::new / WalkBuilder::new(..).build() without
    # further configuration (an entry filter prunes whole directories; changed standard filters change
    # which files are seen)
    nxt = walk_iterator_next(ctx, wb)
    for cb in list(ctx.facts.with_descendants(wb)) + (list(ctx.facts.with_descendants(nxt)) if nxt is not None else []):
        for bi, t in cb.calls():
            nm = callee_name(t)
            if re.search(r"^ignore::(walk::)?WalkBuilder::", nm) and not re.search(r"WalkBuilder::(new|build)$", nm):
                out.viol(rule, "%s|configured|%s" % (rule, nm.split("::")[-1]), ctx.where(cb, t["span"]),
                         "the directory walker is configured with `%s`: what the walk yields is no longer the standard set of non-hidden, non-ignored files (an entry filter also prunes every file below a matching directory, although those files match no --ignore glob themselves)" % nm.split("::")[-1])
            if callee_matches(t, ISDIR) and t["args"]:
                labs = ctx.prov.resolve_upvars(cb, ctx.prov.read_operand(cb, t["args"][0]))
                if P.has_call(labs, r"Path::strip_prefix$|Path::file_name$|Path::(parent|components|iter)$"):
                    out.viol(rule, "%s|relative-is-dir" % rule, ctx.where(cb, t["span"]),
                             "`is_dir()` is asked about a path that was made relative to the repository root: the question is answered against the current directory, so the walk yields different files depending on where inside the repository blockwatch is started")
    # ... also when the path was made relative by an earlier stage of the pipeline (`.map(|e| strip_prefix..)
    # .filter(|p| !p.is_dir())`): the stage that asks `is_dir` receives what the stages before it produced
    E = ctx.expr(wb)
    for bi, t in wb.calls():
        if callee_matches(t, r"Iterator::(filter|filter_map|take_while|skip_while|map_while)$") and len(t["args"]) == 2:
            clo = None
            for x in walk(E.operand(t["args"][1])):
                if x[0] == "agg" and str(x[1]).startswith("closure:"):
                    clo = ctx.facts.body(x[1][8:])
            if clo is None or not any(callee_matches(tt, ISDIR) for cb2 in ctx.facts.with_descendants(clo) for _, tt in cb2.calls()):
                continue
            for x in walk(E.operand(t["args"][0])):
                if x[0] == "agg" and str(x[1]).startswith("closure:"):
                    up = ctx.facts.body(x[1][8:])
                    if up is not None and any(callee_matches(tt, r"Path::strip_prefix$|Path::file_name$") for cb2 in ctx.facts.with_descendants(up) for _, tt in cb2.calls()):
                        out.viol(rule, "%s|relative-is-dir" % rule, ctx.where(wb, t["span"]),
                                 "`is_dir()` is asked in a pipeline stage that comes after the stage making the path relative to the repository root: the question is answered against the current directory, so the walk yields different files depending on where inside the repository blockwatch is started")
    found = False
    for cb in ctx.facts.with_descendants(wb):
        if cb.kind != "Closure":
            continue
        # (helpers of the file-system type itself are looked through: the closure may only forward to one)
        v = ctx.inl(cb, skip=lambda c: False, tag="all-sugar", sugar=True)
        cfg = cfg_of(v)
        rty = v.local_ty(0)
        drops = []
        slots = util.return_slots(v)
        if rty.startswith("std::option::Option<"):
            for bi, j, s in v.assigns():
                rv = s["rv"]
                if bi in cfg.reachable and s["lhs"]["l"] in slots and not s["lhs"]["p"] and rv["k"] == "agg" and rv.get("agg") == "adt" and rv.get("variant") in ("None", 0) and rv.get("path", "").endswith("option::Option"):
                    drops.append((bi, s["span"], None))
            found = True
        elif rty == "bool" and any(callee_matches(t, r"Iterator::filter$") for _, t in wb.calls()):
            for bi, j, s in v.assigns():
                rv = s["rv"]
                if bi in cfg.reachable and s["lhs"]["l"] == 0 and not s["lhs"]["p"]:
                    e = ctx.expr(v).rvalue(rv)
                    drops.append((bi, s["span"], e))
            found = True
        else:
            continue
        if rty == "bool" and drops:
            # filter closure: decided on the three-case model first (exact); the structural reading only
            # when the model cannot follow the closure
            verdict = _keep_table(ctx, v)
            if verdict is True:
                n += 1
                continue
            if verdict is False:
                out.viol(rule, "%s|extra-skip" % rule, ctx.where(v, drops[0][1]),
                         "the walk's filter does not keep exactly the entries that are not directories (case analysis over {Ok + directory, Ok + not a directory, walker error}): an entry that is not a directory, or a walker error, is dropped - or a directory is kept")
                continue
        for bi, span, e in drops:
            if e is not None:
                # filter closure: the kept-condition must be exactly !is_dir(path)
                if e[0] == "un" and e[1] == "Not" and e[2][0] == "call" and re.search(ISDIR, e[2][1]):
                    n += 1
                elif e[0] == "const":
                    if e[1] in (0, False):
                        gs = util.guards(ctx, v, bi)
                        if any(g[2][0] == "call" and re.search(ISDIR, g[2][1]) and 0 not in g[1] for g in gs) and all((g[2][0] == "call" and re.search(ISDIR, g[2][1])) or g[2][0] in ("discr",) or "discr" in render(g[2], 80) for g in gs):
                            n += 1
                        else:
                            out.viol(rule, "%s|extra-skip" % rule, ctx.where(v, span), "the walk drops an entry for a reason other than `path.is_dir()`")
                else:
                    verdict = _keep_table(ctx, v)
                    if verdict is True:
                        n += 1
                    else:
                        out.viol(rule, "%s|extra-skip" % rule, ctx.where(v, span), "the walk keeps an entry iff `%s`%s; expected `!path.is_dir()`" % (render(e, 120), "" if verdict is None else " (case analysis: an entry that is not a directory, or a walker error, is dropped - or a directory is kept)"))
                    break       # decided for the closure as a whole
                continue
            gs = util.guards(ctx, v, bi)
            isdir = [g for g in gs if g[2][0] == "call" and re.search(ISDIR, g[2][1]) and 0 not in g[1]]
            other = [g for g in gs if not (g[2][0] == "call" and re.search(ISDIR, g[2][1])) and not (v.blocks[g[0]]["term"].get("op_ty", "") != "bool" and any(x[0] in ("param",) or (x[0] == "var" and isinstance(x[1], int) and 1 <= x[1] <= v.argc) for x in walk(g[2])))]
            if isdir and not other:
                n += 1
            else:
                why = ", ".join(render(g[2], 90) for g in (other or gs)[:3])
                out.viol(rule, "%s|extra-skip" % rule, ctx.where(v, span),
                         "the directory walk drops an entry under the condition [%s]; the only entries to leave out are directories as `Path::is_dir()` sees them (following symbolic links): with any other test a file in scope — a symbolic link to a file, for instance — is never read, so its blocks and its unbalanced tags go unnoticed" % why)
    if not found and nxt is not None:
        # the walk as an iterator type of its own: its `next` on the three-case model
        verdict = _next_table(ctx, nxt)
        if verdict is True:
            n += 1
            found = True
        elif verdict is False:
            found = True
            out.viol(rule, "%s|extra-skip" % rule, ctx.where(nxt),
                     "the walk's iterator does not hand on exactly the entries that are not directories (case analysis over {Ok + directory, Ok + not a directory, walker error}): an entry that is not a directory, or a walker error, is dropped - or a directory is kept")
    if not found:
        out.viol(rule, "%s|anchor" % rule, ctx.where(wb), "no filter / filter_map closure found in FileSystemImpl::walk")
    out.inst(rule, n, 1, note="drop sites of the walk closure(s): each guarded by Path::is_dir(path) only")


def check_comment_state(ctx, out, rule="C12.rescan"):
    """A comment can hold several tags; the tag iterator returns them one call at a time. When it
    hands out a tag, the comment being scanned must still be its current comment: no state in which
    the iterator returns `Some(..)` has its current-comment field known to be empty (cleared by an
    assignment of None, a `take()`, a `replace`). Otherwise the tags after a start tag in the same
    comment are silently dropped - an unmatched end tag among them goes unnoticed. Decided by case
    analysis (engine.casewalk) over the normalised iterator body, `*self` being an abstract record."""
    from engine import casewalk as CW
    n = 0
    cands = [b for b in ctx.reachable_bodies() if b.promoted is None and b.kind == "AssocFn" and b.id.endswith("::next")
             and re.search(r"Option<std::result::Result<blockwatch::block_parser::PartialBlock", b.local_ty(0))]
    std = CW.std_hooks()
    for b0 in cands:
        # helper methods of the iterator itself are looked through; everything else stays a call (the
        # constructors it calls have loops of their own that are irrelevant here)
        own = b0.impl_self_adt
        b = ctx.inl(b0, skip=lambda cb: not (own and cb.impl_self_adt == own), tag="own-methods", sugar=True)
        # the iterator's own Option-typed state (the comment being scanned, or a record holding it)
        flds = set()
        empty_of = {}
        for bi, sp, pl in util.all_places(b):
            es = [e for e in pl["p"] if isinstance(e, dict) and e.get("f")]
            if es and str(es[0].get("adt", "")) == str(own) and str(es[0].get("ty", "")).startswith("std::option::Option<") \
                    and not re.search(r"Iterator|Peekable|IntoIter", str(es[0].get("ty", ""))):
                flds.add(str(es[0]["f"]))
                empty_of[str(es[0]["f"])] = {"None"}
            elif es and str(es[0].get("adt", "")) == str(own):
                # ... or a state enum of the crate's own with a field-less "no current comment" variant
                ad = ctx.facts.adts.get(re.sub(r"<.*$", "", str(es[0].get("ty", ""))))
                if ad and ad.get("kind") == "enum" and str(ad["path"]).startswith("blockwatch::"):
                    vs = ad.get("variants", [])
                    bare = {v["name"] for v in vs if not v.get("fields")}
                    if bare and len(bare) < len(vs):
                        flds.add(str(es[0]["f"]))
                        empty_of[str(es[0]["f"])] = bare
        if not flds:
            continue
        bad = []

        def hook(w, bb, t, argv, env):
            return std(w, bb, t, argv, env)
        w = CW.Walk(ctx, b, [hook])

        def on_visit(bb, env):
            tm = b.blocks[bb]["term"]
            if not (tm and tm["k"] == "return"):
                return
            r0 = env.get(0, CW.TOP)
            if r0[0] == "adt" and r0[2] == "Some":
                for fld in flds:
                    cur = w.field(env.get(-2, CW.TOP), fld) if env.get(-2, CW.TOP)[0] == "adt" else CW.TOP
                    if cur[0] == "adt" and cur[2] in empty_of.get(fld, {"None"}):
                        bad.append(bb)
        w.on_visit = on_visit
        try:
            w.explore(0, {1: ("ref", -2, (), True)})
        except CW.Limit as e:
            out.viol(rule, "%s|%s|limit" % (rule, b0.id), ctx.where(b0), "case analysis of the tag iterator did not finish (%s)" % e)
            continue
        if bad:
            out.viol(rule, "%s|%s|tag-after-clear" % (rule, b0.id), ctx.where(b0),
                     "the tag iterator can hand out a tag while its current-comment field is empty (cleared / taken and not set again): the next call starts with the following comment, so further tags in the same comment (`<block ..> <block ..>`, or an end tag after a start tag) are dropped and the file's imbalance is not detected")
        else:
            n += 1
    out.inst(rule, n, 1, [b.id for b in cands], note="tag iterators: no Some(..) is returned in a state whose current comment is known to be cleared")


def check_noskip(ctx, out, rule="C12.noskip"):
    """The file parser returns without parsing a file only on the "no grammar for this file name" branch: no other
    path (a textual pre-filter, a size limit, ...) reaches a successful return without `BlocksParser::parse`."""
    fp = file_parser(ctx)
    if fp is None:
        out.inst(rule, 0, 1, note="file parser not found")
        return
    cfg = cfg_of(fp)
    parse_bbs = {bi for bi, t in fp.calls() if callee_matches(t, r"BlocksParser::parse$")}
    lookup = [(bi, t) for bi, t in fp.calls() if ctx.facts.body(t.get("res") or "") is not None and re.match(r"std::option::Option<&.*dyn blockwatch::block_parser::BlocksParser", t.get("dest_ty") or "")]
    none_arms = set()
    for bi, t in lookup:
        sw = cfg.succ[bi][0]
        tt = fp.blocks[sw]["term"]
        if tt and tt["k"] == "switch":
            arms = util.switch_arms(fp, sw)
            none_arms.add(arms.get(0, arms["otherwise"]))
    if not lookup:
        out.viol(rule, rule + "|lookup", ctx.where(fp), "grammar lookup not found in the file parser")
    else:
        eb = err_blocks(ctx, fp)
        r = cfg.reach(0, avoid=parse_bbs | eb | none_arms)
        if any(x in cfg.exits for x in r):
            out.viol(rule, rule + "|skip-path", ctx.where(fp),
                     "the file parser can return successfully without parsing the file on a path that is not the 'no grammar for this file name' branch: the blocks of such a file - and its unbalanced tags - would go unnoticed")
            out.inst(rule, 0, 1)
        else:
            out.inst(rule, 1, 1, ["%s: Ok without parse only via lookup==None" % fp.id])


def _is_text_test(t):
    """A call that inspects what a piece of text starts with / contains (not the search for the next `<` itself)."""
    if callee_matches(t, r"<impl str>::(starts_with|ends_with|contains|strip_prefix|strip_suffix|get|get_unchecked|is_char_boundary|eq_ignore_ascii_case|as_bytes|bytes|chars|char_indices|split_at|split_once|trim_start_matches)$"):
        return True
    if callee_matches(t, r"PartialEq.*::(eq|ne)$|slice::<impl \[T\]>::(starts_with|ends_with|get)$") and re.search(r"\bstr\b|\[u8\]", (t.get("arg_tys") or [""])[0]):
        return True
    return False


def check_candidates(ctx, out, rule="C12.candidates"):
    """Every `<` the tag scanner finds is offered to the tag grammar before the scanner moves on to the next one:
    no way round the scan loop that tests the text after a position avoids every application of a tag parser (a way
    round that only steps over characters that are not `<` is the search itself). (A pre-check that sends some candidates
    straight to the next `<` has to agree with the grammar on every spelling the grammar accepts; when it does
    not, an end tag is passed over, its block's start is reported as unclosed - or, alone, nothing is reported.)"""
    cands = [b for b in ctx.reachable_bodies()
             if b.promoted is None and "tag_parser" in b.id and b.kind in ("Fn", "AssocFn")
             and b.local_ty(0).startswith("std::result::Result<std::option::Option<blockwatch::tag_parser::BlockTag")]
    if len(cands) != 1:
        out.inst(rule, 0, 1, note="tag scanner (fn .. -> Result<Option<BlockTag>>) not found")
        return
    b0 = cands[0]

    def is_parse(t):
        return callee_matches(t, r"^winnow::.*::parse_(peek|next)$|^winnow::Parser::parse$")

    def readable(v):
        c = cfg_of(v)
        P = {bi for bi, t in v.calls() if is_parse(t)}
        loops = [(h, bl) for h, bl in c.loops().items() if P & bl]
        return (c, P, loops) if P and loops else None

    # the most detailed view that shows the parser applications inside a loop decides (an adaptor such as
    # `filter` in front of the loop is part of the loop only once it is expanded)
    views = [lambda: ctx.inl(b0, skip=ctx.domain_api, tag="domain", sugar=True), lambda: ctx.inl(b0, tag="all"), lambda: b0]
    for mk in views:
        try:
            v = mk()
        except Exception:
            continue
        rd = readable(v)
        if rd is None:
            continue
        c, P, loops = rd
        h, bl = max(loops, key=lambda x: len(x[1]))
        G = bl - P

        def on_cycle(x):
            seen, stack = set(), [y for y in c.succ[x] if y in G]
            while stack:
                y = stack.pop()
                if y == x:
                    return True
                if y in seen:
                    continue
                seen.add(y)
                stack.extend(z for z in c.succ[y] if z in G and z not in seen)
            return False

        # a way round that applies no parser is the scanner stepping over text that is not a `<` - unless a test of
        # the *text after* the position lies on it
        tests = [bi for bi, t in v.calls() if bi in G and _is_text_test(t)]
        back = any(on_cycle(x) for x in tests)
        if back:
            out.viol(rule, rule + "|bypass", ctx.where(v, v.blocks[h]["term"].get("span")),
                     "the tag scanner can go on to the next `<` without offering the current one to a tag parser: a tag spelled in a way the skipping test does not expect (the grammar allows blanks inside `< /block >`) is passed over, and an end tag without an open block is then accepted silently")
            out.inst(rule, 0, 0)
        else:
            out.inst(rule, 1, 1, ["%s: every way round the scan loop applies one of %d tag parser calls" % (b0.id.split("::")[-2][:40], len(P))])
        return
    out.inst(rule, 0, 1, note="no tag parser application inside a loop in any view of the tag scanner")


def check_scanner_end(ctx, out, rule="C12.scan"):
    """The tag scanner gives up only at the end: `Ok(None)` iff the cursor is at / past the text's length (the
    plain `>=`, no slack) or no `<` is left."""
    k = 0
    scanners = ctx.facts.impls_of_trait(r"tag_parser::BlockTagParser$")
    for imp in scanners:
        for meth in imp["methods"]:
            if meth["name"] != "next":
                continue
            b = ctx.facts.body(meth["def"])
            if b is None:
                continue
            for bi, j, s in b.assigns():
                rv = s["rv"]
                if s["lhs"]["l"] == 0 and rv["k"] == "agg" and rv.get("variant") == "Ok":
                    e = ctx.expr(b).operand(rv["ops"][0])
                    if not (e[0] == "agg" and e[1].endswith("Option::None")):
                        continue
                    for br, vals, ge in util.guards(ctx, b, bi):
                        if ge[0] == "bin" and ge[1] in ("Ge", "Gt", "Le", "Lt", "Eq", "Ne"):
                            inner = [x for side in (ge[2], ge[3]) for x in walk(side) if x[0] == "bin" or (x[0] == "call" and re.search(r"(saturating|wrapping|checked)_(add|sub)$", x[1]))]
                            if inner or ge[1] not in ("Ge",):
                                out.viol(rule, rule + "|bound", ctx.where(b, s["span"]),
                                         "the tag scanner stops (returns `Ok(None)`) under `%s`: the end-of-text test has slack or a different comparison, so a tag in the last bytes of a comment can be skipped" % render(ge, 160))
                            else:
                                k += 1
                        elif ge[0] == "discr" and find_calls(ge, r"<impl str>::find$"):
                            k += 1
                        elif ge[0] == "discr" or ge[0] == "call":
                            pass
    out.inst(rule, k, 2, ["Ok(None) iff cursor >= source.len() or no '<' left"])


def run(ctx, out, tier):
    check_comment_state(ctx, out)
    check_walkfiles(ctx, out)
    # ------------------------------------------------------------------ C12.stack
    pf = pairing_fn(ctx)
    n = 0
    if pf is None:
        out.inst("C12.stack", 0, 4, note="pairing function not found")
    else:
        cfg = cfg_of(pf)
        pops = [(bi, t) for bi, t in pf.calls() if callee_matches(t, r"Vec::<T, A>::pop$")]
        stack_locals = {util.base_path(pf, t["args"][0]) for bi, t in pops}
        if len(stack_locals) != 1:
            out.viol("C12.stack", "C12.stack|stack", ctx.where(pf), "expected one open-tag stack, found %d popped containers" % len(stack_locals))
        else:
            stack = stack_locals.pop()
            loops = cfg.loops()
            in_loop = [(bi, t) for bi, t in pops if cfg.loops_containing(bi)]
            after = [(bi, t) for bi, t in pops if not cfg.loops_containing(bi)]
            # (a) end tag with an empty stack
            for bi, t in in_loop:
                sw = cfg.succ[bi][0]
                arms = util.switch_arms(pf, sw)
                none_arm = arms.get(0, arms["otherwise"])
                ok, r = only_err_from(ctx, pf, none_arm)
                h = cfg.innermost_loop(bi)
                loops_back = h in r
                if ok and not loops_back:
                    n += 1
                else:
                    out.viol("C12.stack", "C12.stack|unmatched-end", ctx.where(pf, t["span"]),
                             "an end tag that finds no open block does not always end in `return Err`: %s" % ("the scan continues" if loops_back else "a normal return is reachable"))
            if not in_loop:
                out.viol("C12.stack", "C12.stack|no-pop-in-loop", ctx.where(pf), "no stack pop inside the tag loop")
            # (b) leftover start tags after the scan
            checked = False
            tests = [(bi, t) for bi, t in pf.calls() if not cfg.loops_containing(bi) and t["args"] and util.base_path(pf, t["args"][0]) == stack
                     and callee_matches(t, r"Vec::<T, A>::(pop|is_empty|len|last|first)$|<impl \[T\]>::(is_empty|len|last|first)$")]
            if not tests:
                # the stack moved out of its struct / accumulator before it is tested (`let Self { open, .. } = self`):
                # a container of the stack's type is the stack when the function builds at most one of that type
                m_el = re.match(r"&(?:mut )?(std::vec::Vec<(.*)>)$", (pops[0][1].get("arg_tys") or [""])[0])
                if m_el:
                    vty, ety = m_el.group(1), m_el.group(2)
                    built = [bi for bi, t in pf.calls() if (t.get("dest_ty") or "") == vty and not callee_matches(t, r"mem::(take|replace)$")]
                    if len(built) <= 1:
                        tests = [(bi, t) for bi, t in pf.calls() if not cfg.loops_containing(bi) and t["args"]
                                 and re.sub(r"^&(mut )?", "", (t.get("arg_tys") or [""])[0]) in (vty, "[%s]" % ety)
                                 and callee_matches(t, r"Vec::<T, A>::(pop|is_empty|len|last|first)$|<impl \[T\]>::(is_empty|len|last|first)$")]
            oks = [bi for bi, j, s in pf.assigns() if s["lhs"]["l"] == 0 and s["rv"]["k"] == "agg" and s["rv"].get("variant") == "Ok"]
            for bi, t in tests:
                if not all(cfg.dominates(bi, o) for o in oks):
                    continue
                nm = callee_name(t).split("::")[-1]
                sw = cfg.succ[bi][0]
                tt = pf.blocks[sw]["term"]
                if not tt or tt["k"] != "switch":
                    continue
                arms = util.switch_arms(pf, sw)
                if nm in ("pop", "last", "first"):
                    nonempty = arms.get(1)
                elif nm == "is_empty":
                    nonempty = arms.get(0)
                else:
                    nonempty = None
                if nonempty is None:
                    continue
                ok, r = only_err_from(ctx, pf, nonempty)
                if ok:
                    checked = True
                else:
                    out.viol("C12.stack", "C12.stack|unclosed-start", ctx.where(pf, t["span"]),
                             "a start tag left open at the end of the file does not always end in `return Err`")
                    checked = True
            if checked:
                n += 1
            else:
                out.viol("C12.stack", "C12.stack|no-leftover-check", ctx.where(pf),
                         "no test of the open-tag stack dominates the successful return: a file with an unclosed start tag would be accepted")
            # every Ok return lies after the loop
            for o in oks:
                if cfg.loops_containing(o):
                    out.viol("C12.stack", "C12.stack|ok-in-loop", ctx.where(pf), "the pairing function can return Ok from inside the tag loop")
            # (c) stack discipline
            bad = []
            for bi, t in pf.calls():
                if t["args"] and util.base_path(pf, t["args"][0]) == stack:
                    nm = callee_name(t).split("::")[-1]
                    if nm not in ("push", "pop", "is_empty", "len", "last", "first", "deref", "new"):
                        bad.append(nm)
            if bad:
                out.viol("C12.stack", "C12.stack|discipline", ctx.where(pf), "the open-tag stack is also used through %s (only push/pop pair tags innermost-first)" % sorted(set(bad)))
            else:
                n += 1
            # start tags are pushed on every Start
            pushes = [(bi, t) for bi, t in pf.calls() if callee_matches(t, r"Vec::<T, A>::push$") and util.base_path(pf, t["args"][0]) == stack]
            if len(pushes) >= 1 and all(cfg.loops_containing(bi) for bi, t in pushes):
                n += 1
            else:
                out.viol("C12.stack", "C12.stack|push", ctx.where(pf), "start tags are not pushed onto the stack inside the tag loop")
        out.inst("C12.stack", n, 4, ["%s: End&empty->Err; leftover->Err; push/pop only" % pf.id])

    # ------------------------------------------------------------------ C12.through
    m = 0
    impls = ctx.facts.impls_of_trait(r"block_parser::BlocksParser$")
    for imp in impls:
        for meth in imp["methods"]:
            if meth["name"] != "parse":
                continue
            b = ctx.facts.body(meth["def"])
            if b is None:
                continue
            region = ctx.region(b)
            if pf is not None and pf.id in {x.id for x in region}:
                labs = ctx.prov.read_local(b, 0, ())
                m += 1
            else:
                out.viol("C12.through", "C12.through|%s" % imp["self_ty"], ctx.where(b), "this BlocksParser::parse implementation does not obtain its blocks from the pairing function")
    fp = file_parser(ctx)
    if fp is None:
        out.viol("C12.through", "C12.through|file-parser", "-", "file parser (read_to_string + BlocksParser::parse) not found")
    else:
        from rules.C02 import check_consume
        check_consume(ctx, out, fp, "C12.consume")
        cfg = cfg_of(fp)
        E = ctx.expr(fp)
        # the parse error carries the file path
        ok = False
        for bi, t in fp.calls():
            if callee_matches(t, r"anyhow::Context.*::(context|with_context)$|anyhow::context::<impl anyhow::Context"):
                e0 = E.operand(t["args"][0])
                if find_calls(e0, r"BlocksParser::parse$"):
                    labs = ctx.prov.read_operand(fp, t["args"][1])
                    if any(l[0] == "param" and l[1] == 1 for l in labs):
                        ok = True
                    else:
                        out.viol("C12.through", "C12.through|file-name", ctx.where(fp, t["span"]), "the context attached to a parse error does not derive from the file path")
                        ok = True
        if ok:
            m += 1
        else:
            out.viol("C12.through", "C12.through|no-context", ctx.where(fp), "the result of BlocksParser::parse is not given a context naming the file")
        check_noskip(ctx, out, "C12.noskip")
    out.inst("C12.through", m, len(impls) + 1 if impls else 3, ["%d BlocksParser::parse impls -> pairing fn; parse(..).context(file)?" % len(impls)])

    check_scanner_end(ctx, out, "C12.scan")
    # a file is left unparsed only when no grammar is registered for its name: which grammar a name gets, -E
    # mappings included, on the lookup's small model (shared with C16)
    from rules.C16 import shared_lookup
    shared_lookup(ctx, out, "C12.lookup")

    # ------------------------------------------------------------------ shared
    bodies = ctx.reachable_bodies()
    shared.sh_err(ctx, out, bodies, floor=300)
    shared.sh_main(ctx, out)
    shared.sh_traverse(ctx, out)
    # an unbalanced tag can only be reported if the comment holding it is found at all
    from rules.C03 import check_treewalk
    check_treewalk(ctx, out, rule="C12.walk")
    from rules.C01 import check_skipfile
    check_skipfile(ctx, out, rule="C12.skipfile")
    # the scanner resumes right behind the tag it consumed (a tag after it is neither skipped nor read twice)
    from rules.C10 import check_tagoffset
    check_tagoffset(ctx, out, rule="C12.tagoffset")
    check_candidates(ctx, out)
    return meta()


def meta():
    return {
        "explanation": "Decides as path properties of the MIR: unmatched end tag -> only Err; leftover start tag -> only Err; LIFO discipline of the open-tag stack; all BlocksParser impls go through the pairing function; the parse error is given the file path as context; the file parser returns without parsing only on the no-grammar branch; the tag scanner stops only at the exact end of the text or when no `<` is left; and no Result reachable from main is swallowed (so the Err reaches the exit status in scan, list and diff mode, since parsing dominates the mode split). It decides these structural parts, not which comments each grammar yields.",
        "undecided": "comment extraction by the 23 tree-sitter grammars (C03).",
        "assumptions": [],
    }
