"""C16 — Grammar is chosen by file name; unknown names are skipped.

Decided: the suffix -> grammar-module table extracted from `language_parsers()` (39 keys / 23
modules, keys distinct, each module reached, each module builds its parser from its own grammar
crate); dotted keys are not shadowed by a shorter registered suffix that maps to a different module
and every key is findable for `K` and `x.K` under the lookup order the code uses (table
computation); the candidate suffix flows from the file name to the lookup unchanged; the user
mapping is consulted before the built-in table at every lookup; in the file parser nothing is read
or parsed before the lookup succeeded and the unknown-name branch returns Ok(None); `-E` values are
validated against the registered names in Args::validate, which dominates parsing.
Not decided: OS-string / UTF-8 corner cases of file names.
"""
import re

from engine.cfg import cfg_of
from engine.expr import render, walk, find_calls
from engine.facts import callee_name, callee_matches
from engine import prov as P
from rules import shared, util
from rules.C12 import file_parser

DOCUMENTED = ["Makefile", "bash", "c", "cc", "cpp", "cs", "css", "d.ts", "go", "go.mod", "go.sum", "go.work", "h", "htm", "html", "java", "js",
              "jsx", "kt", "kts", "makefile", "markdown", "md", "mk", "php", "phtml", "py", "pyi", "rb", "rs", "sh", "sql", "swift", "toml",
              "ts", "tsx", "xml", "yaml", "yml"]


def extract_table(ctx):
    """[(key, module)] from the HashMap::from([...]) in language_parsers()."""
    lp = ctx.facts.body("blockwatch::language_parsers::language_parsers")
    if lp is None:
        cands = [b for b in ctx.facts.bodies.values() if b.promoted is None and "HashMap<std::ffi::OsString, std::rc::Rc<std::cell::RefCell<std::boxed::Box<dyn blockwatch::block_parser::BlocksParser>>>>" in b.local_ty(0) and b.argc == 0]
        lp = cands[0] if cands else None
    if lp is None:
        return None, []
    E = ctx.expr(lp)
    rows = []
    for bi, j, s in lp.assigns():
        rv = s["rv"]
        if rv["k"] == "agg" and rv.get("agg") == "tuple" and len(rv["ops"]) == 2:
            k = E.operand(rv["ops"][0])
            v = E.operand(rv["ops"][1])
            keys = [x[1] for x in walk(k) if x[0] == "const" and isinstance(x[1], str)]
            mods = sorted({m.group(1) for x in walk(v) if x[0] == "call" for m in [re.search(r"language_parsers::(\w+)::parser$", x[1])] if m and m.group(1) != "language_parsers"})
            if len(keys) == 1 and len(mods) <= 1:
                if not mods:
                    # Rc::clone(&local) / move of a parser local with several uses: resolve through the local
                    root = v
                    while root[0] in ("proj",):
                        root = root[1]
                    if root[0] == "call" and root[2]:
                        root = root[2][0]
                    if root[0] == "var":
                        for d in lp.defs().get(root[1], []):
                            if d[0] == "call":
                                e2 = E.call(d[3], d[1])
                                mods = sorted({m.group(1) for x in walk(e2) if x[0] == "call" for m in [re.search(r"language_parsers::(\w+)::parser$", x[1])] if m and m.group(1) != "language_parsers"})
                rows.append((keys[0], mods[0] if mods else None, s["span"]))
    return lp, rows


def module_language(ctx, mod):
    """The tree-sitter LANGUAGE constants a grammar module mentions."""
    langs = set()
    for b in ctx.facts.bodies.values():
        if b.promoted is None and b.id.startswith("blockwatch::language_parsers::%s::" % mod) and "::tests::" not in b.id:
            for bi, j, s in b.assigns():
                rv = s["rv"]
                op = rv.get("op") if isinstance(rv.get("op"), dict) else None
                if op and "k" in op:
                    u = op["k"].get("uneval") or ""
                    if re.match(r"tree_sitter_\w+::LANGUAGE", u):
                        langs.add(u)
            for bi, t in b.calls():
                for a in t["args"]:
                    if "k" in a:
                        u = a["k"].get("uneval") or ""
                        if re.match(r"tree_sitter_\w+::LANGUAGE", u):
                            langs.add(u)
    return langs


def check_grammar(ctx, out, mods, rule="C16.grammar"):
    """Each grammar module builds its parser from the tree-sitter grammar of its own language."""
    # each module uses a grammar of its own crate
    m_ok = 0
    EXPECT = {"bash": "bash", "c": "c", "c_sharp": "c_sharp", "cpp": "cpp", "css": "css", "go": "go", "html": "html", "java": "java", "javascript": "javascript",
              "kotlin": "kotlin_ng", "makefile": "make", "markdown": "md", "php": "php", "python": "python", "ruby": "ruby", "rust": "rust", "sql": "sequel",
              "swift": "swift", "toml": "toml_ng", "tsx": "typescript", "typescript": "typescript", "xml": "xml", "yaml": "yaml"}
    for mod in mods:
        langs = module_language(ctx, mod)
        crates = {re.match(r"tree_sitter_(\w+)::", l).group(1) for l in langs}
        want = EXPECT.get(mod)
        ok = want in crates if want else bool(crates)
        if mod == "markdown":
            ok = ok and "html" in crates
        elif len(crates) != 1:
            ok = False
        if mod == "tsx":
            ok = ok and any(l.endswith("LANGUAGE_TSX") for l in langs)
        if mod == "typescript":
            ok = ok and any(l.endswith("LANGUAGE_TYPESCRIPT") for l in langs)
        if ok:
            m_ok += 1
        else:
            out.viol(rule, "%s|%s" % (rule, mod), "-", "grammar module `%s` builds its parser from %s; expected the tree_sitter_%s grammar" % (mod, sorted(langs), want))
    out.inst(rule, m_ok, 23, ["%s<-%s" % (m, sorted(module_language(ctx, m))) for m in mods[:4]], exhaustive=True)



def check_lookup_model(ctx, out, pfp0, rule="C16.lookup"):
    """The grammar lookup on a small model (engine.casewalk + engine.strmodel): the file is
    `src/My.Dir/Ab.Cd.e`; the two tables are abstract - for every choice of which of the candidate keys
    {e, Cd.e, Ab.Cd.e, X} the parser table holds and which single -E mapping exists, the function is walked
    and the parser it returns is compared with the documented order: the dot-suffixes of the file's own
    name from the shortest to the longest, then the whole name; each candidate is first mapped through
    the -E table; the candidate is used exactly as written (no case folding), directories play no part.
    True/False if decided, None if the model could not follow the code."""
    from engine import casewalk as CW
    from engine import listmodel as LM
    from engine import strmodel as SM
    import itertools
    v = ctx.inl(pfp0, skip=lambda cb: False, tag="all-sugar", sugar=True)
    ppath = [i for i in range(1, v.argc + 1) if "std::path::Path" in v.local_ty(i)]
    pmap = [i for i in range(1, v.argc + 1) if "BlocksParser" in v.local_ty(i) and "HashMap" in v.local_ty(i)]
    pext = [i for i in range(1, v.argc + 1) if re.search(r"HashMap<std::ffi::OsString, std::ffi::OsString>", v.local_ty(i))]
    base_env = {}
    if len(ppath) == 1 and not pmap and not pext:
        # the two tables as fields of a lookup struct (`&self`)
        for i in range(1, v.argc + 1):
            m = re.match(r"&(?:mut )?(blockwatch::[\w:]+)", v.local_ty(i))
            ad = ctx.facts.adts.get(m.group(1)) if m else None
            if not ad or len(ad.get("variants", [])) != 1:
                continue
            fs = []
            for f in ad["variants"][0].get("fields", []):
                if "BlocksParser" in f["ty"] and "HashMap" in f["ty"]:
                    fs.append((f["name"], CW.sym("PARSERS")))
                elif re.search(r"HashMap<std::ffi::OsString, std::ffi::OsString>", f["ty"]):
                    fs.append((f["name"], CW.sym("EXTRA")))
            if sorted(x[1][1] for x in fs) == ["EXTRA", "PARSERS"]:
                base_env[i] = CW.adt(ad["path"], ad["variants"][0].get("name"), 0, fs)
        if len(base_env) != 1:
            return None
    elif len(ppath) != 1 or len(pmap) != 1 or len(pext) != 1:
        return None
    else:
        base_env = {pmap[0]: CW.sym("PARSERS"), pext[0]: CW.sym("EXTRA")}
    std = CW.std_hooks()
    lm = LM.hooks()
    sm = SM.hooks()
    NAME_ = "Ab.Cd.e"
    cands = ["e", "Cd.e", NAME_]
    keys = ["e", "Cd.e", NAME_, "X"]
    n = 0
    total = 0
    for r in range(len(keys) + 1):
        for have in itertools.combinations(keys, r):
            for extra in (None, ("e", "X"), ("Cd.e", "X"), ("e", "Cd.e"), (NAME_, "X")):
                total += 1
                results = set()
                asked = []

                def hook(w, bb, t, argv, env):
                    nm = callee_name(t)
                    a0 = w.deref_val(env, argv[0]) if argv else CW.TOP
                    if re.search(r"HashMap::<K, V, S, A>::(get|contains_key)$", nm) and a0[0] == "sym" and len(argv) > 1:
                        k = w.deref_val(env, argv[1])
                        if not (CW.is_const(k) and isinstance(k[1], str)):
                            return None
                        asked.append((a0[1], k[1]))
                        if a0[1] == "PARSERS":
                            hit = k[1] in have
                            if nm.endswith("contains_key"):
                                return CW.const(1 if hit else 0)
                            return CW.adt("std::option::Option", "Some", 1, [("0", CW.sym("P", k[1]))]) if hit else CW.adt("std::option::Option", "None", 0, [])
                        if a0[1] == "EXTRA":
                            hit = extra is not None and k[1] == extra[0]
                            if nm.endswith("contains_key"):
                                return CW.const(1 if hit else 0)
                            return CW.adt("std::option::Option", "Some", 1, [("0", CW.const(extra[1]))]) if hit else CW.adt("std::option::Option", "None", 0, [])
                    r_ = sm(w, bb, t, argv, env)
                    if r_ is not None:
                        return r_
                    r_ = lm(w, bb, t, argv, env)
                    if r_ is not None:
                        return r_
                    return std(w, bb, t, argv, env)
                w = CW.Walk(ctx, v, [hook], max_states=20000)

                def on_visit(bb, env):
                    tm = v.blocks[bb]["term"]
                    if tm and tm["k"] == "return":
                        r0 = env.get(0, CW.TOP)
                        if r0[0] == "adt" and r0[2] == "Some":
                            p0 = w.deref_val(env, w.field(r0, "0"))
                            results.add("P(%s)" % p0[2] if p0[0] == "sym" and p0[1] == "P" else "?")
                        elif r0[0] == "adt" and r0[2] == "None":
                            results.add("none")
                        else:
                            results.add("?")
                w.on_visit = on_visit
                env = dict(base_env)
                env[ppath[0]] = CW.const("src/My.Dir/" + NAME_)
                try:
                    w.explore(0, env)
                except CW.Limit:
                    return None
                if "?" in results or not results:
                    return None
                want = "none"
                for c in cands:
                    key = extra[1] if (extra is not None and extra[0] == c) else c
                    if key in have:
                        want = "P(%s)" % key
                        break
                if results == {want}:
                    n += 1
                else:
                    out.viol(rule, "%s|model|%s|%s" % (rule, "+".join(have) or "-", "%s>%s" % extra if extra else "-"), ctx.where(pfp0),
                             "grammar lookup for `src/My.Dir/%s` with parsers registered for {%s} and -E mapping %s: the result is %s; expected %s (candidates, in order: %s; each first mapped through -E; looked up as written)"
                             % (NAME_, ", ".join(have), ("%s=%s" % extra) if extra else "none", sorted(results), want, cands))
    out.inst(rule, n, total, ["file name Ab.Cd.e x 16 parser tables x 5 -E mappings: first hit among e, Cd.e, Ab.Cd.e (mapped through -E)"], exhaustive=True)
    return n == total


def shared_lookup(ctx, out, rule):
    """The grammar lookup's small model for another property: adopted when it decides (no verdict otherwise)."""
    pfp = None
    for b in ctx.facts.bodies.values():
        if b.promoted is not None or b.kind not in ("Fn", "AssocFn") or b.id not in ctx.reach:
            continue
        if re.match(r"std::option::Option<&.*dyn blockwatch::block_parser::BlocksParser", b.local_ty(0)) and any("std::path::Path" in b.local_ty(i) for i in range(1, b.argc + 1)):
            pfp = b
    tr = out.trial()
    verdict = None
    if pfp is not None:
        try:
            verdict = check_lookup_model(ctx, tr, pfp, rule=rule)
        except Exception as e:      # noqa: BLE001
            ctx.view_fallbacks.append("%s: small-model analysis failed (%s: %s)" % (rule, type(e).__name__, e))
    if verdict is None:
        out.inst(rule, 0, 0, note="the lookup's small model could not follow the code")
    else:
        out.adopt(tr)


def run(ctx, out, tier):
    lp, rows = extract_table(ctx)
    n = 0
    if lp is None or not rows:
        out.inst("C16.table", 0, 39, note="suffix table not found")
        return meta()
    keys = [r[0] for r in rows]
    table = {}
    for k, m, sp in rows:
        if m is None:
            out.viol("C16.table", "C16.table|unresolved|%s" % k, ctx.where(lp, sp), "could not resolve the grammar module registered for suffix %r" % k)
            continue
        if k in table:
            out.viol("C16.table", "C16.table|duplicate|%s" % k, ctx.where(lp, sp), "suffix %r is registered twice (the later entry silently wins)" % k)
        table[k] = m
        n += 1
    missing = sorted(set(DOCUMENTED) - set(table))
    extra = sorted(set(table) - set(DOCUMENTED))
    if missing:
        out.viol("C16.table", "C16.table|missing", ctx.where(lp), "documented suffixes not registered: %s" % missing)
    if extra:
        out.note("suffixes registered beyond the documented 39: %s" % extra)
    mods = sorted(set(table.values()))
    out.inst("C16.table", n, 39, ["%s->%s" % kv for kv in sorted(table.items())[:8]], exhaustive=True, note="%d keys -> %d modules" % (len(table), len(mods)))
    check_grammar(ctx, out, mods)

    # ------------------------------------------------------------------ lookup function(s)
    pfp = None
    tpe = None
    for b in ctx.facts.bodies.values():
        if b.promoted is not None or b.kind not in ("Fn", "AssocFn") or b.id not in ctx.reach:
            continue
        if re.match(r"std::option::Option<&.*dyn blockwatch::block_parser::BlocksParser", b.local_ty(0)):
            if any("std::path::Path" in b.local_ty(i) for i in range(1, b.argc + 1)):
                pfp = b
            elif any(re.match(r"&(std::ffi::OsString|std::ffi::OsStr|str|std::string::String)$", b.local_ty(i)) for i in range(1, b.argc + 1)):
                tpe = b
    # the lookup order on a small model; the structural rules below decide the same aspects when the model
    # cannot follow the code
    decided = None
    direction = "right"
    if pfp is not None:
        # every dot-suffix of the file name is a candidate: the candidate iteration is not cut short (a cap on
        # the number of suffixes tried loses the -E keys and registered names with more components)
        from rules.shared import TRUNCATING
        Ep = ctx.expr(pfp)
        for bi, t in pfp.calls():
            if callee_matches(t, TRUNCATING.pattern) and t["args"] and not callee_matches(t, r"Iterator::(find|find_map|position)$"):
                e = Ep.operand(t["args"][0])
                if any(c[0] == "call" and re.search(r"<impl str>::(r?match_indices|r?split\w*|char_indices)$", c[1]) for c in walk(e)):
                    out.viol("C16.lookup", "C16.lookup|truncated-candidates|%s" % callee_name(t).split("::")[-1], ctx.where(pfp, t["span"]),
                             "the suffixes of the file name pass through `%s` before they are looked up: not every dot-suffix is tried, so a registered name or -E key with more components than the cap can never select its grammar (the file is skipped silently)" % callee_name(t).split("::")[-1])
        tr = out.trial()
        try:
            decided = check_lookup_model(ctx, tr, pfp)
        except Exception as e:      # noqa: BLE001
            ctx.view_fallbacks.append("C16.lookup: small-model analysis failed (%s: %s)" % (type(e).__name__, e))
            decided = None
        if decided is not None:
            out.adopt(tr)
    if decided is None:
        # normalised views (pipelines / combinators expanded); the per-suffix lookup stays a call
        if pfp is not None:
            tid = tpe.id if tpe is not None else None
            pfp = ctx.inl(pfp, skip=lambda cb: ctx.domain_api(cb) or cb.id == tid, tag="C16", sugar=True)
        if tpe is not None:
            tpe = ctx.inl(tpe, skip=ctx.domain_api, tag="domain", sugar=True)
        k = 0
        direction = "right"
        if pfp is None:
            out.viol("C16.lookup", "C16.lookup|fn", "-", "file-name -> parser lookup function not found")
        else:
            names = [callee_name(t).split("::")[-1] for bi, t in pfp.calls()]
            if "match_indices" in names or "rmatch_indices" in names:
                rev = ("rev" in names) != ("rmatch_indices" in names)
                direction = "right" if rev else "left"
                k += 1
            elif "rsplit" in names or "split" in names or "extension" in names:
                out.viol("C16.lookup", "C16.lookup|algorithm", ctx.where(pfp), "the lookup no longer tries every dot-suffix of the file name (%s): compound suffixes such as d.ts / go.mod cannot be found" % sorted(set(names))[:6])
            # candidate suffix reaches the lookup unchanged
            inner = tpe.id if tpe is not None else None
            ALLOWED = [r"std::path::Path::file_name$", r"std::ffi::OsStr::to_str$", r"<impl str>::match_indices$", r"<impl str>::rmatch_indices$", r"Iterator::rev$", r"Iterator>?::next$",
                       r"IntoIterator>?::into_iter$", r"Index<.*> for str>::index$|ops::Index::index$", r"OsString as std::convert::From<.*>>::from$", r"Try>?::branch$",
                       r"std::ffi::OsStr::new$", r"AsRef<std::ffi::OsStr>>::as_ref$", r"HashMap::<K, V, S, A>::get$", r"Option::<T>::(map_or|unwrap_or)$", r"OsString::as_os_str$"]
            sites = [(bi, t) for bi, t in pfp.calls() if inner and (t.get("res") or "") == inner]
            if not sites and tpe is None:
                sites = [(bi, t) for bi, t in pfp.calls() if callee_matches(t, r"HashMap::<K, V, S, A>::get$")]
            for bi, t in sites:
                # the candidate: first argument of the per-suffix lookup, or the key of a direct table lookup
                cand = t["args"][1] if callee_matches(t, r"HashMap::<K, V, S, A>::get$") and len(t["args"]) > 1 else t["args"][0]
                labs = ctx.prov.resolve_upvars(pfp, ctx.prov.read_operand(pfp, cand))
                if not P.has_call(labs, r"std::path::Path::file_name$"):
                    out.viol("C16.lookup", "C16.lookup|not-file-name", ctx.where(pfp, t["span"]),
                             "a lookup candidate derives from [%s], not from the file's own name (`Path::file_name`): the directories a file lies in must not influence which grammar is chosen" % util.origins_text({l for l in labs if l[0] == "call"}, 5))
                    continue
                bad = sorted({l[1] for l in labs if l[0] == "call" and not any(re.search(a, l[1]) for a in ALLOWED)})
                if bad:
                    out.viol("C16.lookup", "C16.lookup|candidate-transformed", ctx.where(pfp, t["span"]),
                             "the candidate suffix is transformed by %s before the lookup: registered names and -E keys are matched exactly as written, so e.g. upper-case keys can no longer match and unregistered spellings start to match" % [b.split("::")[-1] for b in bad])
                else:
                    k += 1
            # the whole name is the fallback (Makefile, go.mod …)
            cfg = cfg_of(pfp)
            loops = cfg.loops()
            after = [bi for bi, t in sites if not cfg.loops_containing(bi)]
            if after:
                k += 1
            else:
                out.viol("C16.lookup", "C16.lookup|whole-name", ctx.where(pfp), "no lookup of the whole file name after the dot-suffixes (extension-less names such as Makefile could not be found)")
        if tpe is not None:
            cfg = cfg_of(tpe)
            gets = [(bi, t) for bi, t in tpe.calls() if callee_matches(t, r"HashMap::<K, V, S, A>::get$")]
            extra_gets = [(bi, t) for bi, t in gets if "HashMap<std::ffi::OsString, std::ffi::OsString>" in (t.get("arg_tys") or [""])[0]]
            parser_gets = [(bi, t) for bi, t in gets if "BlocksParser" in (t.get("arg_tys") or [""])[0]]
            if len(extra_gets) == 1 and len(parser_gets) >= 1 and all(cfg.dominates(extra_gets[0][0], bi) for bi, t in parser_gets):
                k += 1
                # the key used for the built-in table is the mapped value when there is one
                for bi, t in parser_gets:
                    labs = ctx.prov.read_operand(tpe, t["args"][1])
                    if P.has_call(labs, r"HashMap::<K, V, S, A>::get$") and any(l[0] == "param" and l[1] == 1 for l in labs):
                        k += 1
                    else:
                        out.viol("C16.remap", "C16.remap|key", ctx.where(tpe, t["span"]), "the built-in table is not consulted with (mapped suffix, else the suffix itself)")
            else:
                out.viol("C16.remap", "C16.remap|order", ctx.where(tpe),
                         "the built-in table is consulted before (or without) the user's -E mapping: a mapping whose key is itself a registered suffix is accepted up front and then silently ignored")
        out.inst("C16.lookup", k, 6, ["dot-suffixes from the %s, then whole name; extra map first" % direction])

    # ------------------------------------------------------------------ C16.shadow (table computation)
    s_ok = 0

    def lookup(name):
        idxs = [i for i, c in enumerate(name) if c == "."]
        if direction == "right":
            idxs = idxs[::-1]
        for i in idxs:
            ext = name[i + 1:]
            if ext in table:
                return table[ext]
        return table.get(name)

    for key, mod in sorted(table.items()):
        for name in (key, "x." + key, "dir.v2/x." + key):
            base = name.split("/")[-1]
            got = lookup(base)
            if got == mod:
                s_ok += 1
            else:
                out.viol("C16.shadow", "C16.shadow|%s|%s" % (key, "bare" if name == key else "x."), ctx.where(lp),
                         "a file named %r is parsed with grammar `%s`, although suffix %r is registered for `%s` (shadowed by another registered suffix under the %s-first lookup order)" % (base, got, key, mod, direction))
    out.inst("C16.shadow", s_ok, 117, ["%d keys x {K, x.K, dir.v2/x.K}" % len(table)], exhaustive=True)

    # ------------------------------------------------------------------ C16.known
    fp = file_parser(ctx)
    kn = 0
    if fp is not None:
        cfg = cfg_of(fp)
        lookups = [(bi, t) for bi, t in fp.calls() if re.match(r"std::option::Option<&.*dyn blockwatch::block_parser::BlocksParser", t.get("dest_ty") or "")]
        if len(lookups) == 1:
            lbi, lt = lookups[0]
            sw = cfg.succ[lbi][0]
            arms = util.switch_arms(fp, sw)
            some = arms.get(1)
            none = arms.get(0, arms["otherwise"])
            for bi, t in fp.calls():
                if callee_matches(t, r"FileSystem::read_to_string$|BlocksParser::parse$"):
                    if cfg.dominates(some, bi):
                        kn += 1
                    else:
                        out.viol("C16.known", "C16.known|%s" % callee_name(t).split("::")[-1], ctx.where(fp, t["span"]),
                                 "`%s` is not dominated by a successful grammar lookup: a file whose name maps to no grammar would be read (and could raise errors)" % callee_name(t).split("::")[-1])
            # None arm: Ok(None), nothing else
            r = cfg.reach(none)
            calls = [callee_name(fp.blocks[x]["term"]) for x in r if fp.blocks[x]["term"] and fp.blocks[x]["term"]["k"] == "call"]
            okn = any(s2["lhs"]["l"] == 0 and s2["rv"]["k"] == "agg" and s2["rv"].get("variant") == "Ok" for x in r for s2 in fp.blocks[x]["stmts"] if s2["k"] == "assign")
            if okn and not calls:
                kn += 1
            else:
                out.viol("C16.known", "C16.known|none-arm", ctx.where(fp), "the unknown-file-name branch does not simply return Ok(None) (calls: %s)" % calls[:3])
            # the lookup uses the parser's own path / tables
            pidx = [i for i, ty in enumerate(lt.get("arg_tys") or []) if "std::path::Path" in ty] or [0]
            labs = ctx.prov.read_operand(fp, lt["args"][pidx[0]])
            if any(l[0] == "param" and l[1] == 1 for l in labs):
                kn += 1
        else:
            out.viol("C16.known", "C16.known|lookups", ctx.where(fp), "expected one grammar lookup in the file parser, found %d" % len(lookups))
    out.inst("C16.known", kn, 4, ["read/parse dominated by lookup==Some; None -> Ok(None)"])

    # ------------------------------------------------------------------ C16.validate (-E values)
    v = 0
    av = ctx.facts.body("blockwatch::flags::Args::validate")
    main = ctx.main_view()
    if av is not None:
        av = ctx.inl(av, skip=ctx.domain_api, tag="domain", sugar=True)
        found = False
        for bi, j, s in av.assigns():
            rv = s["rv"]
            if s["lhs"]["l"] in util.return_slots(av) and rv["k"] == "agg" and rv.get("variant") == "Err":
                for br, vals, e in util.guards(ctx, av, bi):
                    txt = render(e, 500)
                    if re.search(r"HashSet::contains\(supported_extensions", txt) and ".1" in txt:
                        neg = e[0] == "un" and e[1] == "Not"
                        if (neg and 0 not in vals) or (not neg and vals == {0}):
                            if util.arm_only_err(ctx, av, br, vals):
                                found = True
                            else:
                                out.viol("C16.validate", "C16.validate|weakened", ctx.where(av, s["span"]),
                                         "a -E mapping onto an unsupported grammar is rejected only under a further condition")
                                found = True
        # the mappings are examined on every path that returns Ok (in every mode, `list` included)
        from rules.C12 import err_blocks
        acfg = cfg_of(av)
        nxt = [bi for bi, t in av.calls() if callee_matches(t, r"Iterator>?::next$") and "extensions" in render(ctx.expr(av).operand(t["args"][0]), 600)]
        # ... each occurrence as given: the loop that drives the grammar test is not an iteration over a map keyed
        # by extension (a key given twice keeps one value there)
        tests = [bi for bi, t in av.calls() if callee_matches(t, r"HashSet::<.*>::contains$|HashSet<.*>::contains$")
                 and "supported_extensions" in render(ctx.expr(av).operand(t["args"][0]), 300)]
        for bi, t in av.calls():
            if callee_matches(t, r"Iterator>?::next$") and re.search(r"\b(hash_map|btree_map)::", (t.get("arg_tys") or [""])[0]) \
                    and any(acfg.dominates(bi, tb) and acfg.can_reach(tb, bi) for tb in tests):
                out.viol("C16.validate", "C16.validate|collapsed", ctx.where(av, t["span"]),
                         "the -E mappings are validated by walking a map keyed by extension: a key given twice keeps only one value there, so `-E k=bogus -E k=html` is accepted although one of the mappings names an unsupported grammar - every -E occurrence as given must be examined")
        if nxt:
            r = acfg.reach(0, avoid=set(nxt) | err_blocks(ctx, av))
            if any(x in acfg.exits for x in r):
                found_bypass = [x for x in r if x in acfg.exits]
                out.viol("C16.validate", "C16.validate|bypass", ctx.where(av, av.blocks[found_bypass[0]]["term"].get("span")),
                         "Args::validate can return Ok without examining the -E mappings (an early return before the mapping loop): an unsupported mapping is then accepted and its files are silently skipped")
            else:
                v += 1
        else:
            out.viol("C16.validate", "C16.validate|no-loop", ctx.where(av), "Args::validate has no loop over the -E mappings")
        if found:
            v += 1
        else:
            out.viol("C16.validate", "C16.validate|check", ctx.where(av), "no Err exit guarded by `!supported_extensions.contains(mapping value)` in Args::validate: a -E mapping onto an unsupported grammar would be accepted")
    if main is not None:
        for bi, t in main.calls():
            if callee_matches(t, r"flags::Args::validate$"):
                mcfg = cfg_of(main)
                pbs = [bj for bj, t2 in main.calls() if callee_matches(t2, r"blocks::parse_blocks$")]
                if pbs and all(mcfg.dominates(bi, bj) for bj in pbs):
                    v += 1
                else:
                    out.viol("C16.validate", "C16.validate|not-before-parse", ctx.where(main, t["span"]), "Args::validate does not run on every path before the files are parsed")
                labs = ctx.prov.read_operand(main, t["args"][1])
                if P.has_call(labs, r"language_parsers::language_parsers$") and P.has_call(labs, r"HashMap::<K, V, S, A>::keys$"):
                    v += 1
                else:
                    out.viol("C16.validate", "C16.validate|supported-set", ctx.where(main, t["span"]), "Args::validate is not given the keys of the registered grammar table")
            if callee_matches(t, r"blocks::parse_blocks$"):
                labs = ctx.prov.read_operand(main, t["args"][5])
                if P.has_call(labs, r"flags::Args::extensions$"):
                    v += 1
                else:
                    out.viol("C16.validate", "C16.validate|extensions-arg", ctx.where(main, t["span"]), "parse_blocks is not given the user's -E mappings")
    # the name that decides the grammar is the file's own: the path a diff names must reach the lookup as
    # git wrote it (one `b/` stripped, nothing else) - shared with C15/C01
    from rules.C01 import check_prefix
    check_prefix(ctx, out, rule="C16.prefix")
    out.inst("C16.validate", v, 5, ["-E value ∈ language_parsers().keys() else Err, before parsing"])
    shared.sh_main(ctx, out)
    return meta()


def meta():
    return {
        "explanation": "Extracts the complete suffix->module table and each module's grammar constant from the MIR (exhaustive over the 39 keys / 23 modules), computes findability and shadowing of every key under the lookup order the code uses (a computation on the extracted table, not an execution of blockwatch), checks that the candidate suffix reaches the lookup untransformed, that the user mapping dominates every built-in lookup, that reading/parsing is dominated by a successful lookup and the unknown branch is a silent Ok(None), and that -E values are validated against the table's keys before anything is parsed.",
        "undecided": "OsString / non-UTF-8 file names; what each grammar then does with the file (C03).",
        "assumptions": ["the documented suffix list is the README's (39 entries)"],
    }
