"""C09 — line-count reports a block iff its size breaks the bound.

Decided (exhaustively, over the 5 operators): the three operator tables — parse (ordered prefix tests
-> variant), compare (variant -> comparison with operands (actual, expected)), print (variant ->
text) — agree with the operator's meaning; the violation is pushed exactly when the comparison is
false; the compared count is `lines().filter(non-blank).count()` of the block content (or 0 for
empty content); the bound is the parsed number of the whole trimmed remainder; the diagnostic's
data carries the count, the operator's text and the bound.
Not decided: what `str::lines` does with exotic line endings, integer parsing.
"""
import os
import re

from engine.cfg import cfg_of
from engine.expr import render, walk, find_calls
from engine.facts import callee_name, callee_matches
from engine import prov as P
from rules import shared, util

MEANING = {"<": "Lt", "<=": "Le", "==": "Eq", ">=": "Ge", ">": "Gt"}


def find_parse_fn(ctx, vb):
    """Crate-local callee of validate that returns Result<(Enum, usize), _>."""
    for bi, t in vb.calls():
        cb = ctx.facts.body(t.get("res") or "") or ctx.facts.body(t.get("def") or "")
        if cb is None:
            continue
        m = re.match(r"std::result::Result<\((\S+), usize\), anyhow::Error>", cb.local_ty(0))
        if m and m.group(1) in ctx.facts.adts:
            return cb, m.group(1), bi, t
    return None, None, None, None


def parse_table(ctx, out, pf, enum):
    """Ordered [(prefix, variant)] from the strip_prefix chain."""
    cfg = cfg_of(pf)
    rows = []
    for bi, t in util.calls_matching(pf, r"str>::strip_prefix$|<impl str>::strip_prefix$"):
        if len(t["args"]) < 2:
            continue
        prefix = util.const_of(ctx, t["args"][1])
        if isinstance(prefix, int):
            prefix = chr(prefix)
        # the Some arm
        succ = cfg.succ[bi]
        variant = None
        if succ:
            sw = succ[0]
            tt = pf.blocks[sw]["term"]
            if tt and tt["k"] == "switch":
                arms = util.switch_arms(pf, sw)
                some = arms.get(1)
                if some is not None:
                    tgt = util.skip_trivial(pf, some)
                    for s in pf.blocks[tgt]["stmts"]:
                        if s["k"] == "assign" and s["rv"]["k"] == "agg" and s["rv"].get("path") == enum:
                            variant = s["rv"]["variant"]
        rows.append((bi, prefix, variant, t))
    # order by dominance (first tested first)
    rows.sort(key=lambda r: sum(1 for o in rows if cfg.dominates(o[0], r[0])))
    if rows and all(r[1] is None for r in rows) and len(rows) == 1:
        # table idiom: `TABLE.iter().find_map(|(token, op)| s.strip_prefix(token).map(|rest| (*op, rest)))`
        # the rows are those of the constant table, tested in array order (find_map stops at the first hit)
        bi, _, _, t = rows[0]
        tables = []
        for bb, j, s in pf.assigns():
            rv = s["rv"]
            if rv["k"] == "use" and isinstance(rv["op"].get("k"), dict) and rv["op"]["k"].get("uneval") and re.search(r"\[\(&str, %s\); \d+\]" % re.escape(enum), rv["op"]["k"].get("ty") or ""):
                tab = util.const_table(ctx, rv["op"]["k"])
                if tab:
                    tables.append(tab)
        first_hit = any(callee_matches(t2, r"Iterator>?::(find_map|find)$") for _, t2 in pf.calls()) or getattr(pf, "sugar_expanded", None)
        if len(tables) == 1 and first_hit:
            out_rows = []
            for i, row in enumerate(tables[0]):
                if isinstance(row, list) and len(row) == 2 and isinstance(row[0], str) and isinstance(row[1], tuple):
                    out_rows.append((bi, row[0], row[1][2], t))
                else:
                    out_rows.append((bi, None, None, t))
            return out_rows
    return rows


def compare_table(ctx, body, enum):
    """variant index -> (BinOp, a_expr, b_expr, bb) from the switch on discr(op)."""
    E = ctx.expr(body)
    res = {}
    sw_bb = None
    for bi, j, s in body.assigns():
        rv = s["rv"]
        if rv["k"] == "discr" and rv.get("adt") == enum:
            dl = s["lhs"]["l"]
            for bj, t in body.terms():
                if t["k"] == "switch":
                    pl = util.op_place(t["op"])
                    if pl and pl["l"] == dl and not pl["p"]:
                        sw_bb = bj
                        arms = util.switch_arms(body, bj)
                        for v, tg in arms.items():
                            if v == "otherwise":
                                continue
                            blk = util.skip_trivial(body, tg)
                            for st in body.blocks[blk]["stmts"]:
                                if st["k"] == "assign" and st["rv"]["k"] == "bin":
                                    r = st["rv"]
                                    res[v] = (r["op"], r["a"], r["b"], blk, st["lhs"]["l"])
    return res, sw_bb


def print_table(ctx, enum):
    """variant index -> text, from the &self -> &str method on the enum that switches on it."""
    for b in ctx.facts.bodies.values():
        if b.promoted is not None or b.impl_self_adt != enum:
            continue
        if not b.local_ty(0).startswith("&") or "str" not in b.local_ty(0):
            continue
        table = {}
        for bi, j, s in b.assigns():
            if s["rv"]["k"] == "discr":
                dl = s["lhs"]["l"]
                for bj, t in b.terms():
                    if t["k"] == "switch":
                        pl = util.op_place(t["op"])
                        if pl and pl["l"] == dl:
                            for v, tg in util.switch_arms(b, bj).items():
                                if v == "otherwise":
                                    continue
                                blk = util.skip_trivial(b, tg)
                                for st in b.blocks[blk]["stmts"]:
                                    if st["k"] == "assign" and st["lhs"]["l"] == 0 and st["rv"]["k"] == "use":
                                        c = util.const_of(ctx, st["rv"]["op"])
                                        if c is not None:
                                            table[v] = c
        if table:
            return b, table
    return None, {}


OPS = {"<": lambda a, e: a < e, "<=": lambda a, e: a <= e, "==": lambda a, e: a == e, ">=": lambda a, e: a >= e, ">": lambda a, e: a > e}
WELL_FORMED = [(op + sp1 + "3" + sp2, op) for op in OPS for sp1, sp2 in (("", ""), (" ", " "))]
MALFORMED = ["3", "=3", "<", "<= x", "", "  ", "< 3 4", "<3x", "=<3", "!=3"]


def check_ops_model(ctx, out, rule="C09.ops", only_malformed=False):
    """line-count on a small model (engine.casewalk + engine.strmodel): the attribute value is a concrete
    string, the number of non-blank content lines a concrete number. For each well-formed expression
    `OP 3` (with and without spaces, 5 operators) and each count in {2, 3, 4}: a violation is built exactly
    when `count OP 3` is false, and no error is returned. For each malformed expression (no operator, an
    unknown one, no number, trailing garbage): an error is returned and nothing is accepted.
    True/False if decided, None if the model could not follow the code."""
    from engine import casewalk as CW
    from engine import listmodel as LM
    from engine import strmodel as SM
    from rules import linemodel as LMo
    vb = ctx.validate_body(NAME_LC, inline=True, skip=lambda cb: ctx.domain_api(cb), tag="domain", sugar=True)
    if vb is None:
        return None
    h, lblocks, drivers = LMo.block_loop(ctx, vb)
    vsites = LMo.violation_sites(ctx, vb)
    if h is None or not drivers or not vsites:
        if os.environ.get("BW_DEBUG_MODEL"):
            print("C09 model: anchors", h, drivers, vsites)
        return None
    std = CW.std_hooks()
    lm = LM.hooks()
    sm = SM.hooks()
    cases = []
    if not only_malformed:
        for expr, op in WELL_FORMED:
            for actual in (2, 3, 4):
                cases.append((expr, op, actual))
        # an empty block counts zero lines (it is not skipped)
        for expr, op in ((">=1", ">="), ("<1", "<"), ("==0", "=="), (">0", ">")):
            cases.append((expr, op, "empty"))
    for expr in MALFORMED:
        cases.append((expr, None, 3))
    n = 0
    used_count_hook = []
    site_args = {}
    print_state = [None]
    for expr, op, actual in cases:
        seen = set()
        empty = actual == "empty"
        if empty:
            actual = 0

        def hook(w, bb, t, argv, env):
            nm = callee_name(t)
            a0 = w.deref_val(env, argv[0]) if argv else CW.TOP
            if bb in drivers:
                if env.get(-4) is None:
                    env[-4] = CW.const(1)
                    return CW.adt("std::option::Option", "Some", 1, [("0", CW.sym("BLOCK"))])
                return "diverge"
            if re.search(r"HashMap::<K, V, S, A>::(get|contains_key)$", nm) and len(argv) > 1 and w.deref_val(env, argv[1]) == CW.const(NAME_LC):
                return CW.const(1) if nm.endswith("contains_key") else CW.adt("std::option::Option", "Some", 1, [("0", CW.const(expr))])
            if bb in vsites:
                site_args[(expr, actual)] = [w.deref_val(env, a) for a in argv]
            if re.search(r"blocks::Block::content$", nm):
                return CW.sym("CONTENT")
            if re.search(r"<impl str>::is_empty$", nm) and a0 == CW.sym("CONTENT"):
                return CW.const(1 if empty else 0)
            if re.search(r"Iterator>?::count$", nm) and a0[0] != "iter":
                used_count_hook.append(1)
                return CW.const(actual)
            # a count written as an explicit loop: `actual` non-blank lines with a blank one in between
            if re.search(r"<impl str>::(lines|split|split_terminator|split_inclusive)$", nm) and a0 == CW.sym("CONTENT") and (
                    nm.endswith("::lines") or (len(argv) > 1 and w.deref_val(env, argv[1]) in (CW.const("\n"), CW.const(10)))):
                # (splitting at '\n' yields the same pieces - plus an empty one after a final newline, which is blank)
                ls = [CW.sym("LINE", i) for i in range(actual)]
                return LM.itr(tuple(ls[:1] + [CW.sym("BLANK")] + ls[1:]) if ls else (() if empty else (CW.sym("BLANK"),)))
            if re.search(r"<impl str>::trim(_start|_end)?$", nm) and a0[0] == "sym" and a0[1] in ("LINE", "BLANK"):
                return CW.sym("trimmed", a0)
            if re.search(r"<impl str>::is_empty$", nm) and a0[0] == "sym" and a0[1] == "trimmed":
                return CW.const(1 if a0[2][1] == "BLANK" else 0)
            r = sm(w, bb, t, argv, env)
            if r is not None:
                return r
            r = lm(w, bb, t, argv, env)
            if r is not None:
                return r
            return std(w, bb, t, argv, env)
        w = CW.Walk(ctx, vb, [hook], max_states=40000)

        outcomes = set()

        def on_visit(bb, env):
            if bb in vsites:
                seen.add("violation")
                env[-6] = CW.const(1)
            tm = vb.blocks[bb]["term"]
            if tm and tm["k"] == "return":
                r0 = env.get(0, CW.TOP)
                if r0[0] == "adt" and r0[2] == "Err":
                    seen.add("error")
                    if env.get(-6) is None:
                        outcomes.add("error")
                else:
                    seen.add("returned")
        w.on_visit = on_visit
        first = [True]

        def stop(bb, env):
            if bb == h:
                if first[0]:
                    first[0] = False
                    return False
                seen.add("accepted")
                outcomes.add("violation" if env.get(-6) is not None else "clean")
                return True
            return False
        try:
            w.explore(h, {}, stop)
        except CW.Limit:
            if os.environ.get("BW_DEBUG_MODEL"):
                print("C09 model: state limit on", expr, actual)
            return None
        # the model is exact only if the walk was deterministic: one outcome per case (an `error` outcome
        # besides is the severity / serialisation error path of building a violation)
        if len(outcomes - {"error"}) > 1 or (op is not None and not outcomes):
            if os.environ.get("BW_DEBUG_MODEL"):
                print("C09 model: undecided on", repr(expr), actual, "outcomes", outcomes, "seen", seen)
            return None
        if op is None:
            if "accepted" in seen or "violation" in seen or "error" not in seen:
                out.viol(rule, "%s|malformed|%s" % (rule, expr.strip() or "blank"), ctx.where(vb),
                         "line-count=%r is malformed (no operator / unknown operator / no number / trailing text), but the block is %s; expected: the run fails with an error" % (expr, " and ".join(sorted(seen - {"error"})) or "not rejected"))
            else:
                n += 1
            continue
        bound = int(re.search(r"\d+", expr).group(0))
        want = not OPS[op](actual, bound)
        got = "violation" in seen
        if "error" in seen and "accepted" not in seen and not got:
            out.viol(rule, "%s|rejected|%s" % (rule, expr.strip()), ctx.where(vb), "line-count=%r is a documented expression but is rejected with an error" % expr)
        elif got != want:
            out.viol(rule, "%s|verdict|%s|%d" % (rule, expr.strip(), actual), ctx.where(vb),
                     "line-count=%r with %s: a violation is %s; expected %s (a violation exactly when `%d %s %d` is false)" % (expr, "an empty block (zero lines)" if empty else "%d non-blank lines" % actual, "built" if got else "not built", "one" if want else "none", actual, op, bound))
        else:
            n += 1
            if got and print_state[0] is not False:
                # the diagnostic carries the operator: among the constant arguments of the violation
                # constructor there is the text of the operator the user wrote
                strs = [a[1] for a in site_args.get((expr, actual), []) if a[0] == "const" and isinstance(a[1], str)]
                if op in strs:
                    print_state[0] = True
                elif any(s in OPS for s in strs):
                    out.viol(rule, "%s|print|%s" % (rule, op), ctx.where(vb),
                             "line-count=%r: the violation is built with the operator text %r instead of %r" % (expr, [s for s in strs if s in OPS][0], op))
                else:
                    print_state[0] = False      # the operator reaches the constructor in another form: structural rule
    ctx.__dict__["_c09_print_by_model"] = print_state[0] is True
    ctx.__dict__["_c09_count_by_model"] = not used_count_hook
    ctx.__dict__["_c09_site_args"] = site_args
    out.inst(rule, n, len(cases), ["%d well-formed (5 operators x spacing x counts 2,3,4) + %d malformed expressions" % (len(cases) - len(MALFORMED), len(MALFORMED))], exhaustive=True)
    return n == len(cases)


NAME_LC = "line-count"


def run(ctx, out, tier):
    name = "line-count"
    # helpers are looked through (virtual inlining), except the constraint parser, which is a table
    # of its own
    def keep_parser(cb):
        return re.match(r"std::result::Result<\((\S+), usize\), anyhow::Error>", cb.local_ty(0)) is not None
    vb = ctx.validate_body(name, inline=True, skip=keep_parser, tag="C09", sugar=True)
    if vb is None:
        out.inst("C09.anchor", 0, 1)
        return meta()
    out.inst("C09.anchor", 1, 1, [vb.id])
    cfg = cfg_of(vb)
    E = ctx.expr(vb)
    pf, enum, parse_bb, parse_t = find_parse_fn(ctx, vb)
    if pf is None:
        out.inst("C09.ops", 0, 15, note="constraint parser not found")
        return meta()
    # the parser with its helpers inlined and its combinators / pipelines expanded
    pf = ctx.inl(pf, skip=ctx.domain_api, tag="domain", sugar=True)
    variants = {v["vi"]: v["name"] for v in ctx.facts.adts[enum]["variants"]}
    vname_to_idx = {v: k for k, v in variants.items()}

    # the operator tables and the verdict on a small model (concrete expressions and counts); the structural
    # tables below are computed in any case (later rules use them) but only reported when the model
    # cannot follow the code
    tr = out.trial()
    try:
        decided = check_ops_model(ctx, tr)
    except Exception as e:      # noqa: BLE001
        ctx.view_fallbacks.append("C09.ops: small-model analysis failed (%s: %s)" % (type(e).__name__, e))
        decided = None
    if decided is not None:
        out.adopt(tr)
    o2 = out if decided is None else out.trial()
    # ---------------------------------------------------------------- C09.ops
    rows = parse_table(ctx, o2, pf, enum)
    cmp_tab, sw_bb = compare_table(ctx, vb, enum)
    pbody, prt = print_table(ctx, enum)
    n_rows = 0
    samples = []
    seen_prefixes = []
    parse_map = {}
    for (bi, prefix, variant, t) in rows:
        if prefix is None or variant is None:
            o2.viol("C09.ops", "C09.ops|parse|unreadable-row", ctx.where(pf, t["span"]),
                     "a strip_prefix test of the constraint parser has no constant prefix or does not select an operator variant")
            continue
        for earlier in seen_prefixes:
            if prefix.startswith(earlier):
                o2.viol("C09.ops", "C09.ops|parse|shadow|%s-after-%s" % (prefix, earlier), ctx.where(pf, t["span"]),
                         "operator prefix %r is tested after %r, which is a prefix of it: %r can never be recognised (it parses as %r followed by garbage)" % (prefix, earlier, prefix, earlier))
        seen_prefixes.append(prefix)
        parse_map[prefix] = variant
    for text, meaning in MEANING.items():
        variant = parse_map.get(text)
        if variant is None:
            o2.viol("C09.ops", "C09.ops|parse|missing|%s" % text, ctx.where(pf), "operator %r is not recognised by the constraint parser" % text)
            continue
        vi = vname_to_idx.get(variant)
        c = cmp_tab.get(vi)
        if c is None:
            o2.viol("C09.ops", "C09.ops|compare|missing|%s" % text, ctx.where(vb),
                     "no comparison found for the operator variant selected by %r (%s): the compare table could not be read off the validator (switch on the operator with one comparison per arm expected)" % (text, variant))
        else:
            n_rows += 1
            op, a, b, blk, dst = c
            if op != meaning:
                o2.viol("C09.ops", "C09.ops|compare|%s" % text, ctx.where(vb),
                         "operator %r (variant %s) is evaluated with %s instead of %s" % (text, variant, op, meaning))
            la = ctx.prov.read_operand(vb, a)
            lb = ctx.prov.read_operand(vb, b)
            a_is_count = P.has_call(la, r"Iterator>?::count$") or P.has_const(la, "0")
            b_is_bound = P.has_call(lb, re.escape(pf.id) + "$")
            a_is_bound = P.has_call(la, re.escape(pf.id) + "$") and not P.has_call(la, r"Iterator>?::count$")
            if not (a_is_count and b_is_bound) or a_is_bound:
                o2.viol("C09.ops", "C09.ops|operands|%s" % text, ctx.where(vb),
                         "the comparison for %r does not compare (actual count, parsed bound) in that order: left derives from [%s], right from [%s]"
                         % (text, util.origins_text(la, 4), util.origins_text(lb, 4)))
            samples.append("%r -> %s -> %s(actual, expected)" % (text, variant, op))
        p = prt.get(vi)
        o3 = o2 if ctx.__dict__.get("_c09_print_by_model") else out
        if p is None:
            o3.viol("C09.ops", "C09.ops|print|missing|%s" % text, ctx.where(pbody) if pbody else "-",
                     "no text found for the operator variant selected by %r" % text)
        else:
            n_rows += 1
            if p != text:
                o3.viol("C09.ops", "C09.ops|print|%s" % text, ctx.where(pbody),
                         "operator %r (variant %s) is printed as %r in the diagnostic" % (text, variant, p))
        n_rows += 1
    extra = set(parse_map) - set(MEANING)
    for e in sorted(extra):
        o2.viol("C09.ops", "C09.ops|parse|extra|%s" % e, ctx.where(pf), "the constraint parser accepts an undocumented operator %r" % e)
    o2.inst("C09.ops", n_rows, 15, samples, exhaustive=True,
             note="5 operators x {parse, compare, print}: all rows of the three tables")

    # ---------------------------------------------------------------- C09.violate
    pushes = util.violation_push_sites(vb)
    ok_n = 0
    for bi, t in pushes:
        gs = util.guards(ctx, vb, bi)
        good = False
        for br, vals, e in gs:
            # the switch on the comparison result (a bool local defined by the BinOps)
            pl = util.op_place(vb.blocks[br]["term"]["op"])
            if pl is None:
                continue
            src = util.copy_root(vb, pl["l"])
            cmp_dsts = {util.copy_root(vb, c[4]) for c in cmp_tab.values()} | {c[4] for c in cmp_tab.values()}
            if src in cmp_dsts:
                if vals == {0}:
                    good = True
                else:
                    o2.viol("C09.violate", "C09.violate|polarity", ctx.where(vb, t["span"]),
                             "the line-count violation is pushed when the comparison is TRUE (branch values %s), i.e. when the bound is satisfied" % sorted(map(str, vals)))
                    good = True
        if good:
            ok_n += 1
        else:
            o2.viol("C09.violate", "C09.violate|unguarded", ctx.where(vb, t["span"]),
                     "the line-count violation push is not control-dependent on the result of the operator comparison")
    o2.inst("C09.violate", ok_n, 1, ["push@%s" % ctx.where(vb, t["span"]) for bi, t in pushes])

    # ---------------------------------------------------------------- C09.noskip
    # a block that carries the attribute is always compared: from the point where the attribute was found,
    # the next block is reached only through the operator comparison or not at all (error). In
    # particular an empty block is not skipped - it counts zero lines.
    n_ns = 0
    bl = [(h, b2) for h, b2, kind in shared.outer_block_loops(ctx, vb) if kind == "blocks"]
    gets = [(bi, t) for bi, t in vb.calls() if callee_matches(t, r"HashMap::<K, V, S, A>::get$") and len(t["args"]) > 1 and util.const_val(ctx, vb, t["args"][1]) == name]
    if len(bl) == 1 and gets and sw_bb is not None:
        h, lblocks = bl[0]
        gbi, gt = gets[0]
        succ = cfg.succ[gbi]
        some = None
        if succ and vb.blocks[succ[0]]["term"] and vb.blocks[succ[0]]["term"]["k"] == "switch":
            some = util.switch_arms(vb, succ[0]).get(1)
        if some is not None:
            eb = shared._err_blocks(vb)
            cmp_blocks = {sw_bb} | {c[3] for c in cmp_tab.values() if isinstance(c[3], int)}
            r = cfg.reach(some, avoid=cmp_blocks | eb | (set(range(cfg.n)) - set(lblocks) - {h}))
            if h in r:
                o2.viol("C09.noskip", "C09.noskip|skip", ctx.where(vb, gt["span"]),
                         "a block carrying `line-count` can go on to the next block without its count being compared with the bound (e.g. an early `continue` for empty content): an empty block counts zero lines and must still be reported for `>=1`, `==2`, `>0`")
            else:
                n_ns += 1
    if decided is not None:
        # the model's empty-block cases (`>=1`, `>0` on a block without content must be reported; `<1`, `==0`
        # must not) decide this clause
        out.inst("C09.noskip", 1, 1, ["small model: an empty block with the attribute is compared as zero lines"])
    else:
        out.inst("C09.noskip", n_ns, 1, ["attribute present -> comparison (or error) before the next block"])

    # ---------------------------------------------------------------- C09.count
    # (decided by the small model when the count was computed there from the modelled content lines -
    #  an explicit loop or an evaluated filter closure - instead of being supplied for `count()`)
    count_by_model = decided is not None and ctx.__dict__.get("_c09_count_by_model")
    o_real, out = out, (out.trial() if count_by_model else out)
    n_cnt = 0
    cs = []
    for v, c in cmp_tab.items():
        a = c[1]
        pl = util.op_place(a)
        if pl is None:
            continue
        cs.append(util.copy_root(vb, pl["l"]))
    count_locals = sorted(set(cs))
    for l in count_locals:
        for d in vb.defs().get(l, []):
            kind, bb, j, x = d
            if kind == "stmt" and x["rv"]["k"] == "use" and util.const_of(ctx, x["rv"]["op"]) == 0:
                # constant 0 only under "content is empty"
                gs = util.guards(ctx, vb, bb)
                if any("is_empty" in render(e, 2000) and "content" in render(e, 2000) for br, vals, e in gs):
                    n_cnt += 1
                else:
                    out.viol("C09.count", "C09.count|zero-unguarded", ctx.where(vb, x["span"]),
                             "the count is set to the constant 0 on a path that is not guarded by `content.is_empty()`")
            elif kind == "call" and callee_matches(x, r"Iterator>?::count$"):
                e = E.operand(x["args"][0])
                chain = []
                cur = e
                while cur[0] == "call":
                    chain.append(cur[1])
                    cur = cur[2][0] if cur[2] else ("var", -1, "?")
                names = [c.split("::")[-1] for c in chain]
                # expected: filter <- lines <- content
                if names[:2] != ["filter", "lines"] or not any("Block::content" in c for c in chain[2:3]):
                    out.viol("C09.count", "C09.count|chain", ctx.where(vb, x["span"]),
                             "the counted iterator is %s; expected count() over filter(non-blank) over lines() of the block content, with nothing dropped or added in between" % " <- ".join(names[:5]))
                else:
                    n_cnt += 1
                # the filter closure is "trimmed line is not empty"
                fc = find_calls(e, r"Iterator::filter$")
                if fc:
                    clos = [a for a in fc[0][2] if a[0] == "agg" and a[1].startswith("closure:")]
                    if clos:
                        cb = ctx.facts.body(clos[0][1][8:])
                        if cb is not None:
                            ce = None
                            for bi2, j2, s2 in cb.assigns():
                                if s2["lhs"]["l"] == 0:
                                    ce = ctx.expr(cb).rvalue(s2["rv"])
                            txt = render(ce, 500) if ce else "?"
                            if not (ce and ce[0] == "un" and ce[1] == "Not" and re.search(r"is_empty\(str::trim\(", txt)):
                                out.viol("C09.count", "C09.count|filter", ctx.where(cb),
                                         "the line filter is `%s`; expected `!line.trim().is_empty()` (blank and whitespace-only lines do not count, all others do)" % txt)
                            else:
                                n_cnt += 1
            else:
                out.viol("C09.count", "C09.count|source", ctx.where(vb, x.get("span")),
                         "the compared count has a definition that is neither `…count()` nor the constant 0")
    # (the `0 if content.is_empty()` special case is optional: `"".lines()` is empty anyway; when it is
    # there, it must be guarded - checked above)
    out.inst("C09.count", n_cnt, 2, ["actual := 0 if content.is_empty() else content.lines().filter(|l| !l.trim().is_empty()).count()"])
    out = o_real
    if count_by_model:
        out.inst("C09.count", 2, 2, ["small model: the compared count is the number of non-blank content lines (0 for an empty block)"])

    # ---------------------------------------------------------------- C09.bound (number = whole trimmed remainder)
    n_b = 0
    Ep = ctx.expr(pf)
    for bi, t in util.calls_matching(pf, r"str>::parse$|<impl str>::parse$"):
        e = Ep.operand(t["args"][0])
        txt = render(e, 800)
        ok = e[0] == "call" and e[1].endswith("::trim") and not find_calls(e, r"split|next$|trim_(start|end)_matches|chars|find")
        if not ok and e[0] != "call":
            # the text went through a tuple / Option built on several paths: decide on its origins
            labs = ctx.prov.read_operand(pf, t["args"][0])
            direct = {l for l in labs if l[0] == "call" and not l[2]}
            ok = bool(direct) and all(re.search(r"<impl str>::trim$", l[1]) for l in direct) \
                and not P.has_call(labs, r"split|trim_(start|end)_matches|trim_matches|chars|char_indices|<impl str>::find$|<impl str>::rfind$")
            txt = "a value with origins [%s]" % util.origins_text(labs, 5)
        if ok:
            n_b += 1
        else:
            out.viol("C09.bound", "C09.bound|parse-arg", ctx.where(pf, t["span"]),
                     "the bound is parsed from `%s`; expected the whole trimmed remainder after the operator, so that trailing garbage is an error" % txt)
    out.inst("C09.bound", n_b, 1, ["expected := rest.trim().parse::<usize>()"])

    # ---------------------------------------------------------------- C09.data
    # decided where the payload is built inside the diagnostic constructor (against the call site's
    # arguments) or, failing that, on the validator with the constructor inlined - wherever the payload
    # `{actual, op, expected}` is written then
    def data_in_constructor(out):
        n_d = 0
        cvs = [(bi, t) for bi, t in vb.calls() if ctx.facts.body(t.get("res") or "") is not None
               and "Violation" in ctx.facts.body(t["res"]).local_ty(0) and bi in cfg.reachable]
        for bi, t in cvs:
            cv = ctx.facts.body(t["res"])
            for bj, j, s in cv.assigns():
                rv = s["rv"]
                if rv["k"] == "agg" and rv.get("agg") == "adt" and set(rv.get("fields") or []) >= {"actual", "expected"}:
                    for fname, op in zip(rv["fields"], rv["ops"]):
                        labs = ctx.prov.read_operand(cv, op)
                        params = sorted({l[1] for l in labs if l[0] == "param"})
                        site = set()
                        for pi in params:
                            if pi - 1 < len(t["args"]):
                                site |= ctx.prov.read_operand(vb, t["args"][pi - 1])
                        sa = (ctx.__dict__.get("_c09_site_args") or {}).get(("<3", 4)) if decided is not None else None
                        if sa is not None and fname in ("actual", "expected") and len(params) == 1 and params[0] - 1 < len(sa):
                            # small model, case `<3` with 4 lines: the argument this field is built from carries 4 / 3
                            got = sa[params[0] - 1]
                            good = got == ("const", 4 if fname == "actual" else 3)
                        elif fname == "actual":
                            good = P.has_call(site, r"Iterator>?::count$") and not P.has_call(site, re.escape(pf.id) + "$")
                        elif fname == "expected":
                            good = P.has_call(site, re.escape(pf.id) + "$") and not P.has_call(site, r"Iterator>?::count$")
                        elif fname == "op":
                            good = pbody is not None and P.has_call(labs, re.escape(pbody.id) + "$")
                        else:
                            continue
                        if good:
                            n_d += 1
                        else:
                            out.viol("C09.data", "C09.data|%s" % fname, ctx.where(cv, s["span"]),
                                     "diagnostic field `%s` derives from [%s] at the call site, not from the %s"
                                     % (fname, util.origins_text(site or labs, 5), {"actual": "counted lines", "expected": "parsed bound", "op": "operator's text"}[fname]))
        out.inst("C09.data", n_d, 3, ["LineCountViolation{actual<-count, op<-as_str(op), expected<-parsed bound}"])


    def data_inlined(out):
        raw = ctx.validate_body(name)
        keep = {x.id for x in (pf, pbody) if x is not None}
        v = ctx.inl(raw, skip=lambda cb: cb.id in keep, tag="c09data") if raw is not None else None
        n_d = 0
        for bj, j, s in (v.assigns() if v is not None else []):
            rv = s["rv"]
            if rv["k"] == "agg" and rv.get("agg") == "adt" and set(rv.get("fields") or []) >= {"actual", "expected"} and bj in cfg_of(v).reachable:
                for fname, op in zip(rv["fields"], rv["ops"]):
                    labs = ctx.prov.read_operand(v, op)
                    if fname == "actual":
                        good = (P.has_call(labs, r"Iterator>?::count$") or P.has_const(labs, "0")) and not P.has_call(labs, re.escape(pf.id) + "$")
                    elif fname == "expected":
                        good = P.has_call(labs, re.escape(pf.id) + "$") and not P.has_call(labs, r"Iterator>?::count$")
                    elif fname == "op":
                        good = pbody is not None and P.has_call(labs, re.escape(pbody.id) + "$")
                    else:
                        continue
                    if good:
                        n_d += 1
                    else:
                        out.viol("C09.data", "C09.data|%s" % fname, ctx.where(v, s["span"]),
                                 "diagnostic field `%s` derives from [%s], not from the %s"
                                 % (fname, util.origins_text(labs, 5), {"actual": "counted lines", "expected": "parsed bound", "op": "operator's text"}[fname]))
        out.inst("C09.data", n_d, 3, ["LineCountViolation{actual<-count, op<-as_str(op), expected<-parsed bound} (constructor inlined)"])
    from engine.core import on_any_view
    on_any_view(out, [data_in_constructor, data_inlined], lambda fn, o: fn(o))

    # ---------------------------------------------------------------- shared
    shared.sh_err(ctx, out, ctx.validator_bodies(name), rule="SH.err", floor=8)
    shared.sh_state(ctx, out, name)
    shared.sh_visit(ctx, out, name)
    # the validator's diagnostics survive the merge with other validators' (append-only), and the
    # attribute text reaches it unmodified (comment delimiters are blanked exactly once)
    shared.sh_merge(ctx, out, ctx.reachable_bodies())
    from rules.C03 import check_blank
    check_blank(ctx, out)
    # the validator only runs if the lazy detection loop creates it: every pending detector is asked
    # about every block (shared with C11/C13/C14)
    from rules.C14 import check_once as _detect_once, detect_fn as _detect_fn
    _dv = _detect_fn(ctx)
    if _dv is not None:
        _detect_once(ctx, out, _dv, rule="C09.detect")
    else:
        out.inst("C09.detect", 0, 4)
    # what the rule judges is the text between the tags: the content's ends and its byte range (shared with C03 / C04)
    from rules.C03 import check_content as _check_content
    shared.run_renamed(out, lambda o: _check_content(ctx, o), "C03", "C09")
    from rules.C04 import check_content_range as _check_content_range
    _check_content_range(ctx, out, rule="C09.contentrange")
    # a block is only judged if its file is parsed at all: no successful return of the file parser without parsing but
    # "no grammar for this name" (shared with C12)
    from rules.C12 import check_noskip as _check_noskip
    _check_noskip(ctx, out, "C09.noskip")
    # what a validator found is only reported if the report keeps every violation (shared with C11)
    from rules.C11 import check_items as _check_items
    shared.run_renamed(out, lambda o: _check_items(ctx, o), "C11", "C09")
    from rules.shared import check_detect_cases
    check_detect_cases(ctx, out, ["line-count"], rule="C09.detectcase")
    shared.sh_flags(ctx, out, "line-count", "C09.flags")
    from rules.C03 import check_sametext
    check_sametext(ctx, out, rule="C09.sametext")
    return meta()


def meta():
    return {
        "explanation": "Decides the operator tables of line-count exhaustively (5 operators x parse/compare/print read off the MIR: strip_prefix chain, switch on the operator enum with one BinOp per arm, as_str), the polarity of the push, the provenance of the compared count (lines().filter(non-blank).count() of the content, or 0 if empty), of the bound (whole trimmed remainder) and of the diagnostic's data, plus no-swallowed-error and no-carried-state over the validator. It decides these structural parts, not the behaviour on a given block.",
        "undecided": "std semantics of str::lines / usize parsing; the content range itself (C03).",
        "assumptions": ["MIR of the nightly toolchain equals the program the stable toolchain builds (no cfg differences in src/)"],
    }
