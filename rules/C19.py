"""C19 — check-ai: request is faithful, reply decides, endpoint faults fail closed.

Decided: one task per block with a non-empty `check-ai`, one request per task; key / endpoint /
model come from the three BLOCKWATCH_AI_* variables and reach with_api_key / with_api_base /
.model(); an empty key leads to Err before any request is built; the user message is a format of the
condition and the selected content through Display only; reply table: no choice or no content -> Err,
content equal (ASCII case-insensitively) to OK / OK. -> pass, anything else -> one diagnostic quoting
it; every joined result reaches the diagnostics map and the collector leaves only on exhaustion or
Err; content selection as for check-lua; no swallowed Result in client, task and collector.
Not decided: what async-openai / reqwest do on each HTTP fault (dependency behaviour).
"""
import os
import re

from engine.cfg import cfg_of
from engine.expr import render, walk, find_calls
from engine.facts import callee_name, callee_matches
from engine import prov as P
from rules import shared, util, asyncval
from rules.C12 import only_err_from

NAME = "check-ai"
ENVS = {"BLOCKWATCH_AI_API_KEY": r"OpenAIConfig::with_api_key$", "BLOCKWATCH_AI_API_URL": r"OpenAIConfig::with_api_base$", "BLOCKWATCH_AI_MODEL": None}


def check_request_gate(ctx, out, rule):
    """Shared with C13 (missing API key fails closed): the request function cannot return Ok without
    having passed the empty-key test and the request itself."""
    cb = None
    for b in ctx.reachable_bodies():
        if any(callee_matches(t, r"^async_openai::Chat::.*::create$") for bi, t in b.calls()):
            cb = b
    if cb is None:
        out.inst(rule, 0, 1, note="request function not found")
        return
    cb = ctx.inl(cb, skip=ctx.domain_api, tag="domain", sugar=True)
    cfg = cfg_of(cb)
    E = ctx.expr(cb)
    creates = [(bi, t) for bi, t in cb.calls() if callee_matches(t, r"^async_openai::Chat::.*::create$")]
    r = cfg.reach(0, avoid={creates[0][0]})
    early = [s for bi, j, s in cb.assigns() if bi in r and s["lhs"]["l"] == 0 and not s["lhs"]["p"] and s["rv"]["k"] == "agg"
             and s["rv"].get("path") == "std::result::Result" and s["rv"].get("variant") == "Ok"]
    early += [s for bi, j, s in cb.assigns() if bi in r and s["rv"]["k"] == "agg" and s["rv"].get("path") == "std::task::Poll" and s["rv"].get("variant") == "Ready"
              and any(x[0] == "agg" and x[1].endswith("Result::Ok") for x in walk(E.rvalue(s["rv"])))]
    if early:
        out.viol(rule, "%s|ok-without-request" % rule, ctx.where(cb, early[0]["span"]),
                 "the check-ai request function can return Ok before the empty-key test and the request: with a missing API key such a block passes silently instead of failing the run")
        out.inst(rule, 0, 1)
    else:
        out.inst(rule, 1, 1, ["every Ok return of the request function passes the key test and the request"])


def check_env(ctx, out, rule="C19.env"):
    """Environment -> client configuration (shared with C13: a missing API key fails closed only if the
    ambient OPENAI_* defaults of async-openai are overridden on every path)."""
    RULE = rule
    m = 0
    ne = None
    cands = []
    for b in ctx.reachable_bodies():
        if any(callee_matches(t, r"^std::env::var$") for bi, t in b.calls()):
            top = b
            while top.kind == "Closure" and top.parent and ctx.facts.body(top.parent) is not None:
                top = ctx.facts.body(top.parent)
            if top.id not in [c.id for c in cands]:
                cands.append(top)
    # a helper *function* `env_or(name, default)` reads the variable whose name it is given: the names are at
    # its callers, where it is looked through
    for b in list(cands):
        if b.kind in ("Fn", "AssocFn") and any(callee_matches(t, r"^std::env::var$") and t["args"] and util.const_val(ctx, b, t["args"][0]) is None for bi, t in b.calls()):
            for c in ctx.reachable_bodies():
                if c.id != b.id and any((t.get("res") or "") == b.id for bi, t in c.calls()):
                    top = c
                    while top.kind == "Closure" and top.parent and ctx.facts.body(top.parent) is not None:
                        top = ctx.facts.body(top.parent)
                    if top.id not in [x.id for x in cands]:
                        cands.append(top)
    for b in cands:
        # normalised view: a helper closure that reads `env::var(name)` is inlined at each use
        b = ctx.inl(b, skip=ctx.domain_api, tag="domain", sugar=True) if not b.coroutine else b
        vs = [util.const_val(ctx, b, t["args"][0]) for bi, t in b.calls() if callee_matches(t, r"^std::env::var$") and t["args"]]
        if set(vs) >= {"BLOCKWATCH_AI_API_KEY"}:
            ne = b
    if ne is None:
        out.viol(RULE, RULE + "|fn", "-", "the function reading BLOCKWATCH_AI_API_KEY was not found")
    else:
        for bi, t in ne.calls():
            for var, sink in ENVS.items():
                if sink and callee_matches(t, sink):
                    labs = ctx.prov.read_operand(ne, t["args"][1])
                    if P.has_const(labs, var) and not any(P.has_const(labs, o) for o in ENVS if o != var):
                        m += 1
                    else:
                        out.viol(RULE, RULE + "|%s" % var, ctx.where(ne, t["span"]), "`%s` is fed from [%s]; expected the value of %s" % (callee_name(t).split("::")[-1], util.origins_text({l for l in labs if l[0] == "const"}, 4), var))
        # OpenAIConfig::new()/default() reads the ambient OPENAI_API_KEY / OPENAI_ADMIN_KEY /
        # OPENAI_BASE_URL variables (pinned async-openai, src/config.rs): both overrides must be
        # applied on every path to the client's construction
        ncfg = cfg_of(ne)
        wc = [bi for bi, t in ne.calls() if callee_matches(t, r"async_openai::Client::<C>::with_config$|async_openai::Client::.*with_config$")]
        for var, sink in ENVS.items():
            if not sink:
                continue
            ss = [bi for bi, t in ne.calls() if callee_matches(t, sink)]
            if wc and ss and all(any(ncfg.dominates(s, w) for s in ss) for w in wc):
                m += 1
            elif wc:
                out.viol(RULE, RULE + "|conditional|%s" % var, ctx.where(ne),
                         "`%s` is not applied on every path to `Client::with_config`: when %s is unset the client keeps async-openai's defaults, which are read from the ambient OPENAI_API_KEY / OPENAI_ADMIN_KEY / OPENAI_BASE_URL variables - a request can be sent with a foreign key instead of failing the run" % (sink.split("::")[-1].rstrip("$"), var))
        ml = ctx.prov.read_local(ne, 0, ("model",))
        if P.has_const(ml, "BLOCKWATCH_AI_MODEL") and not P.has_const(ml, "BLOCKWATCH_AI_API_KEY") and not P.has_const(ml, "BLOCKWATCH_AI_API_URL"):
            m += 1
        else:
            out.viol(RULE, RULE + "|BLOCKWATCH_AI_MODEL", ctx.where(ne), "the client's model is not taken from BLOCKWATCH_AI_MODEL")
        # the empty-key default stays empty (so that check_block's guard fires)
        m_before = m
        for bi, t in ne.calls():
            if callee_matches(t, ENVS["BLOCKWATCH_AI_API_KEY"]):
                kl = ctx.prov.read_operand(ne, t["args"][1])
                cs = {l[1] for l in kl if l[0] == "const" and isinstance(l[1], str)}
                key_consts = cs
        for bi, t in ne.calls():
            if callee_matches(t, r"Result::<T, E>::unwrap_or$"):
                src = ctx.prov.read_operand(ne, t["args"][0])
                if P.has_const(src, "BLOCKWATCH_AI_API_KEY"):
                    d = ctx.expr(ne).operand(t["args"][1])
                    cs = [x[1] for x in walk(d) if x[0] == "const" and isinstance(x[1], str)]
                    if cs == [""]:
                        m += 1
                    else:
                        out.viol(RULE, RULE + "|key-default", ctx.where(ne, t["span"]), "an unset API key defaults to %r instead of the empty key that is rejected before any request" % cs)
            elif callee_matches(t, r"Result::<T, E>::unwrap_or_default$") and "std::string::String" in (t.get("dest_ty") or ""):
                if P.has_const(ctx.prov.read_operand(ne, t["args"][0]), "BLOCKWATCH_AI_API_KEY"):
                    m += 1      # String::default() is the empty string
            elif callee_matches(t, r"Result::<T, E>::unwrap_or_else$"):
                src = ctx.prov.read_operand(ne, t["args"][0])
                if P.has_const(src, "BLOCKWATCH_AI_API_KEY"):
                    from engine.desugar import resolve_closure
                    tgt, cap = resolve_closure(ctx.facts, ne.blocks, t["args"][1])
                    cs = None
                    if tgt is not None and not isinstance(tgt, tuple):
                        cs = [x[1] for bi2, j2, s2 in tgt.assigns() for x in walk(ctx.expr(tgt).rvalue(s2["rv"])) if x[0] == "const" and isinstance(x[1], str)]
                        calls = [callee_name(t2) for _, t2 in tgt.calls()]
                        if (cs == [""] or (not cs and any(re.search(r"String::new$|Default>::default$", c) for c in calls))):
                            m += 1
                            continue
                    out.viol(RULE, RULE + "|key-default", ctx.where(ne, t["span"]), "an unset API key defaults to %r instead of the empty key that is rejected before any request" % cs)
        if m == m_before:
            # no recognised default idiom (the default went through a helper): decide on the origins
            # of the key handed to with_api_key - its only constants are the variable's name and ""
            kc = locals().get("key_consts")
            if kc is not None and "" in kc and kc <= {"", "BLOCKWATCH_AI_API_KEY"}:
                m += 1
            elif kc is not None:
                out.viol(RULE, RULE + "|key-default", ctx.where(ne), "an unset API key defaults to %r instead of the empty key that is rejected before any request" % sorted(kc - {"BLOCKWATCH_AI_API_KEY"}))
        # the detector builds the production client from the environment
        info = ctx.validator(NAME)
        det = ctx.facts.bodies.get(info["detect"]) if info and info.get("detect") else None
        if det is not None and any((t.get("res") or "") == ne.id for rb in shared.detector_region(ctx, NAME) for bi, t in rb.calls()):
            m += 1
        else:
            out.viol(RULE, RULE + "|detector", ctx.where(det) if det else "-", "the check-ai detector does not build its client from the environment")
    out.inst(RULE, m, 7, ["KEY->with_api_key, URL->with_api_base, MODEL->model; unset key -> ''"])



def check_reply_model(ctx, out, cb, rule="C19.reply"):
    """The reply table on a small model (path-sensitive constant propagation over the request function's
    normalised body, from the point where the awaited request hands back its response): no choice -> Err;
    a choice without content -> Err; content equal to `OK` / `OK.` ignoring ASCII case -> pass (Ok(None));
    any other content -> Ok(Some(that content)). True / False, None if the walk cannot follow the code."""
    from engine import casewalk as CW
    from engine import listmodel as LM
    from engine import strmodel as SM
    polls = [(bi, t) for bi, t in cb.calls() if (t.get("def") or "") == "std::future::Future::poll" and re.search(r"async_openai::Chat.*::create", t.get("res") or "")]
    if len(polls) != 1:
        return None
    pbi, pt = polls[0]
    std = CW.std_hooks()
    lm = LM.hooks()
    sm = SM.hooks()
    cases = [("no-choice", None, "err"), ("no-content", "<none>", "err"), ("OK", "OK", "pass"), ("ok", "ok", "pass"), ("OK.", "OK.", "pass"), ("oK.", "oK.", "pass"),
             ("OK!", "OK!", "report"), ("space-OK", " OK", "report"), ("OKAY", "OKAY", "report"), ("text", "The block does not meet the condition", "report"), ("empty", "", "report")]
    n = 0
    for tag, content, want in cases:
        if content is None:
            choices = LM.lst(())
        else:
            c = CW.adt("std::option::Option", "None", 0, []) if content == "<none>" else CW.adt("std::option::Option", "Some", 1, [("0", CW.const(content))])
            choice = ("adt", "async_openai::types::chat::ChatChoice", "ChatChoice", 0, (("message", ("adt", "async_openai::types::chat::ChatCompletionResponseMessage", "ChatCompletionResponseMessage", 0, (("content", c),))),))
            choices = LM.lst((choice,))
        resp = ("adt", "async_openai::types::chat::CreateChatCompletionResponse", "CreateChatCompletionResponse", 0, (("choices", choices),))
        outcomes = set()

        def hook(w, bb, t, argv, env, resp=resp):
            if bb == pbi:
                return CW.adt("std::task::Poll", "Ready", 0, [("0", CW.adt("std::result::Result", "Ok", 0, [("0", resp)]))])
            nm = callee_name(t)
            if re.search(r"anyhow::Context.*::(context|with_context)$|anyhow::context::<impl anyhow::Context|Result::<T, E>::map_err$", nm):
                a0 = w.deref_val(env, argv[0]) if argv else CW.TOP
                return a0 if a0[0] == "adt" and a0[2] in ("Ok", "Err") else None
            for h0 in (sm, lm):
                r = h0(w, bb, t, argv, env)
                if r is not None:
                    return r
            r = std(w, bb, t, argv, env)
            if r is None and os.environ.get("BW_DEBUG_MODEL") and bb >= 0:
                print("   reply-model: unmodelled", nm.split("::")[-1], [str(w.deref_val(env, a))[:60] for a in argv][:3])
            return r
        w = CW.Walk(ctx, cb, [hook], max_states=20000)

        def on_visit(bb, env, outcomes=outcomes):
            tm = cb.blocks[bb]["term"]
            if tm and tm["k"] == "return":
                r0 = env.get(0, CW.TOP)
                if r0[0] == "adt" and r0[2] == "Err":
                    outcomes.add("err")
                elif r0[0] == "adt" and r0[2] == "Ok":
                    pl = w.field(r0, "0")
                    if pl[0] == "adt" and pl[2] == "None":
                        outcomes.add("pass")
                    elif pl[0] == "adt" and pl[2] == "Some":
                        txt = w.field(pl, "0")
                        outcomes.add("report" if txt == CW.const(content) else "report-other")
                    else:
                        outcomes.add("?")
                else:
                    outcomes.add("?")
        w.on_visit = on_visit
        try:
            w.explore(pbi, {})
        except CW.Limit:
            return None
        if "?" in outcomes or not outcomes:
            return None
        if outcomes == {want}:
            n += 1
        else:
            desc = {"no-choice": "a response without choices", "no-content": "a choice without content"}.get(tag, "the reply %r" % content)
            out.viol(rule, "%s|model|%s" % (rule, tag), ctx.where(cb),
                     "%s leads to %s; expected %s (no choice / no content: error; OK or OK. ignoring ASCII case: pass; anything else: one diagnostic carrying the reply)" % (
                         desc, sorted(outcomes), {"err": "an error", "pass": "a pass", "report": "a diagnostic with that text"}[want]))
    out.inst(rule, 5 if n == len(cases) else 0, 5, ["reply table on a small model: %d cases" % len(cases)], exhaustive=True)
    return n == len(cases)


def run(ctx, out, tier):
    res = asyncval.check_once(ctx, out, "C19", NAME, r"check_ai::AiClient::check_block$", "request (`AiClient::check_block`)")
    # the production client's check_block
    cb = None
    for b in ctx.reachable_bodies():
        if any(callee_matches(t, r"^async_openai::Chat::<'c, C>::create$|^async_openai::Chat::.*::create$") for bi, t in b.calls()):
            cb = b
    if cb is not None:
        # normalised view: synchronous helpers inlined, Option / Result combinators expanded
        cb = ctx.inl(cb, skip=ctx.domain_api, tag="domain", sugar=True)
    n = 0
    if cb is None:
        out.inst("C19.request", 0, 5, note="request function (Chat::create) not found")
    else:
        cfg = cfg_of(cb)
        E = ctx.expr(cb)
        resolve = lambda labs: ctx.prov.resolve_upvars(cb, labs)
        creates = [(bi, t) for bi, t in cb.calls() if callee_matches(t, r"^async_openai::Chat::.*::create$")]
        if len(creates) == 1 and not [h for h in cfg.loops_containing(creates[0][0]) if not is_poll_loop(cb, cfg, h)]:
            n += 1
        else:
            out.viol("C19.request", "C19.request|count", ctx.where(cb), "expected exactly one chat-completion request per check, found %d (or in a loop)" % len(creates))
        # empty key -> Err before any request
        key_guard = None
        for bi, j, s in cb.assigns():
            if s["rv"]["k"] == "agg" and s["rv"].get("variant") == "Err" and s["rv"].get("path") == "std::result::Result":
                for br, vals, e in util.guards(ctx, cb, bi):
                    txt = render(e, 600)
                    if re.match(r"^str::is_empty\(", txt) and "expose_secret" in txt and "api_key" in txt and 0 not in vals \
                            and util.arm_only_err(ctx, cb, br, vals):
                        key_guard = br
        if key_guard is not None and creates and cfg.dominates(key_guard, creates[0][0]):
            n += 1
        else:
            out.viol("C19.request", "C19.request|empty-key", ctx.where(cb), "no `return Err` guarded by `api_key.is_empty()` that dominates the request: a missing key would send a request (or pass) instead of failing closed")
        # no verdict without asking: every Ok return of the request function passes the request (an early
        # `return Ok(None)` - for empty content, say - is a pass nobody gave, and it also bypasses the
        # empty-key error)
        if creates:
            r = cfg.reach(0, avoid={creates[0][0]})
            early = [s for bi, j, s in cb.assigns() if bi in r and s["lhs"]["l"] == 0 and not s["lhs"]["p"] and s["rv"]["k"] == "agg"
                     and s["rv"].get("path") == "std::result::Result" and s["rv"].get("variant") == "Ok"]
            early += [s for bi, j, s in cb.assigns() if bi in r and s["rv"]["k"] == "agg" and s["rv"].get("path") == "std::task::Poll" and s["rv"].get("variant") == "Ready"
                      and any(x[0] == "agg" and x[1].endswith("Result::Ok") for x in walk(E.rvalue(s["rv"])))]
            if early:
                out.viol("C19.request", "C19.request|ok-without-request", ctx.where(cb, early[0]["span"]),
                         "the request function can return Ok without sending the request: the block passes although the model was never asked (and a missing API key goes unnoticed on that path)")
            else:
                n += 1
        # the user message
        ucs = [(bi, t) for bi, t in cb.calls() if callee_matches(t, r"ChatCompletionRequestUserMessageArgs::content$")]
        if len(ucs) == 1:
            labs = resolve(ctx.prov.read_operand(cb, ucs[0][1]["args"][1]))
            ps = sorted({l[1] for l in labs if l[0] == "param"})
            bad = sorted({l[1].split("::")[-1] for l in labs if l[0] == "call" and not re.search(r"fmt::|Argument::<'_>::new_display$|hint::must_use$|Into<|From<|ToString|Deref", l[1])})
            fmts = sorted({l[1].split("::")[-1] for l in labs if l[0] == "call" and re.search(r"Argument::<'_>::new_(debug|lower_hex|upper_hex|pointer)", l[1])})
            if ps == [2, 3] and not bad and not fmts:
                n += 1
            else:
                out.viol("C19.request", "C19.request|verbatim", ctx.where(cb, ucs[0][1]["span"]),
                         "the user message derives from parameters %s through %s; expected the condition and the block content, both through Display formatting only" % (ps, bad + fmts))
        else:
            out.viol("C19.request", "C19.request|user-message", ctx.where(cb), "expected one user message, found %d" % len(ucs))
        # the model
        mcs = [(bi, t) for bi, t in cb.calls() if callee_matches(t, r"CreateChatCompletionRequestArgs::model$")]
        if len(mcs) == 1:
            labs = resolve(ctx.prov.read_operand(cb, mcs[0][1]["args"][1]))
            if P.has_path(labs, "model"):
                n += 1
            else:
                out.viol("C19.request", "C19.request|model", ctx.where(cb, mcs[0][1]["span"]), "the request's model does not come from the client's configured model")
        else:
            out.viol("C19.request", "C19.request|model-count", ctx.where(cb), "the request sets the model %d time(s)" % len(mcs))
        # messages: system + user
        msgs = [(bi, t) for bi, t in cb.calls() if callee_matches(t, r"CreateChatCompletionRequestArgs::messages$")]
        if len(msgs) == 1:
            labs = resolve(ctx.prov.read_operand(cb, msgs[0][1]["args"][1]))
            if P.has_call(labs, r"UserMessageArgs::build$") and P.has_call(labs, r"SystemMessageArgs::build$"):
                n += 1
            else:
                out.viol("C19.request", "C19.request|messages", ctx.where(cb, msgs[0][1]["span"]), "the request does not carry the system and the user message")
    out.inst("C19.request", n, 6, ["one create(); Err if key empty; no Ok without request; user := format(condition, content); model := self.model"])

    # ------------------------------------------------------------------ C19.env
    check_env(ctx, out)

    # ------------------------------------------------------------------ C19.reply
    r = 0
    reply_decided = None
    if cb is not None:
        tr_r = out.trial()
        try:
            reply_decided = check_reply_model(ctx, tr_r, cb)
        except Exception as e:      # noqa: BLE001
            ctx.view_fallbacks.append("C19.reply: small-model analysis failed (%s: %s)" % (type(e).__name__, e))
            reply_decided = None
        if reply_decided is not None:
            out.adopt(tr_r)
    out_real = out
    if reply_decided is not None:
        out = out.trial()       # the structural reading below is only reported when the model is undecided
    if cb is not None:
        cfg = cfg_of(cb)
        E = ctx.expr(cb)
        # no choice -> Err ; no content -> Err
        seen_kinds = set()
        for bi, j, s in cb.assigns():
            if s["rv"]["k"] != "discr":
                continue
            e = E.place(s["rv"]["place"])
            txt = render(e, 4000)
            is_choice = e[0] == "call" and re.search(r"Iterator>::next$", e[1]) and "choices" in txt
            is_content = "message.content" in txt.replace("'", "") and e[0] == "proj" and tuple(e[2][-2:]) == ("message", "content")
            if not (is_choice or is_content):
                continue
            dl = s["lhs"]["l"]
            for bj, t in cb.terms():
                if t["k"] == "switch" and (util.op_place(t["op"]) or {}).get("l") == dl:
                    arms = util.switch_arms(cb, bj)
                    none_arm = arms.get(0, arms["otherwise"])
                    okerr, rr = only_err_from(ctx, cb, none_arm)
                    what = "no choice" if is_choice else "a choice without content"
                    seen_kinds.add("choice" if is_choice else "content")
                    if okerr:
                        r += 1
                    else:
                        out.viol("C19.reply", "C19.reply|%s" % ("no-choice" if is_choice else "no-content"), ctx.where(cb, s["span"]),
                                 "a reply with %s does not end in `return Err`: a malformed / empty body would be taken as a pass" % what)
        for kind, what in (("choice", "without any choice"), ("content", "whose choice has no content")):
            if kind not in seen_kinds:
                out.viol("C19.reply", "C19.reply|no-%s-branch" % kind, ctx.where(cb),
                         "no branch on a reply %s that leads to `return Err` was found: such a reply (empty / malformed body) would not fail the run" % what)
        # Ok(None) only under eq_ignore_ascii_case(message, "OK" | "OK.")
        consts = set()
        for bi, t in cb.calls():
            if callee_matches(t, r"<impl str>::eq_ignore_ascii_case$"):
                for a in t["args"]:
                    v = util.const_val(ctx, cb, a)
                    if isinstance(v, str):
                        consts.add(v)
        if not consts:
            # `["OK", "OK."].iter().any(|ok| reply.eq_ignore_ascii_case(ok))`: the accepted replies are a constant table
            for bi, j, s in cb.assigns():
                rv = s["rv"]
                k = rv["op"].get("k") if rv["k"] == "use" and isinstance(rv.get("op"), dict) else None
                if isinstance(k, dict) and k.get("uneval") and re.search(r"\[&str; \d+\]", k.get("ty") or ""):
                    rows = util.const_table(ctx, k)
                    if rows and all(isinstance(x, str) for x in rows):
                        consts |= set(rows)
        rslots = util.return_slots(cb)
        verdicts = []       # (block, stmt, is_none, payload operand or None)
        for bi, j, s in cb.assigns():
            if s["lhs"]["l"] in rslots and not s["lhs"]["p"] and s["rv"]["k"] == "agg" and s["rv"].get("variant") == "Ok":
                pe = E.operand(s["rv"]["ops"][0])
                if pe[0] == "agg" and (pe[1].endswith("::None") or pe[1].endswith("::Some")):
                    verdicts.append((bi, s, pe[1].endswith("::None"), s["rv"]["ops"][0]))
        if not verdicts:
            # the verdict is built first and wrapped later (`.map(verdict_of).ok_or_else(..)`): the
            # None / Some(text) values of type Option<String> are the verdict sites
            reach = cfg_of(cb).reachable
            for bi, j, s in cb.assigns():
                rv = s["rv"]
                if bi in reach and not s["lhs"]["p"] and rv["k"] == "agg" and rv.get("path") == "std::option::Option" \
                        and re.match(r"^std::option::Option<std::string::String>$", cb.local_ty(s["lhs"]["l"]) or ""):
                    verdicts.append((bi, s, rv.get("variant") == "None", rv["ops"][0] if rv["ops"] else None))
        for bi, s, is_none, payload in verdicts:
            if True:
                gs = util.guards(ctx, cb, bi)
                cmpg = [(vals, e) for br, vals, e in gs if e[0] == "call" and re.search(r"<impl str>::eq_ignore_ascii_case$|PartialEq.*::eq$|starts_with$|<impl str>::contains$", e[1])]
                if is_none:
                    good = False
                    for vals, e in cmpg:
                        if re.search(r"eq_ignore_ascii_case$", e[1]) and 0 not in vals:
                            good = True
                        elif not re.search(r"eq_ignore_ascii_case$", e[1]):
                            out.viol("C19.reply", "C19.reply|ok-test", ctx.where(cb, s["span"]), "the pass decision uses `%s`; documented: the reply equals OK / OK. ignoring ASCII case" % e[1].split("::")[-1])
                            good = True
                    if good:
                        r += 1
                    else:
                        out.viol("C19.reply", "C19.reply|pass-unguarded", ctx.where(cb, s["span"]),
                                 "the check passes (Ok(None)) on a path that is not guarded by the reply being OK: e.g. an absent reply text is taken as a pass")
                else:
                    src = payload if (payload is not None and s["rv"].get("variant") != "Ok") else s["rv"]["ops"][0]
                    labs = ctx.prov.read_operand(cb, src)
                    if P.has_path(labs, "message", "content") or P.has_path(labs, "content"):
                        r += 1
                    else:
                        out.viol("C19.reply", "C19.reply|diagnostic-text", ctx.where(cb, s["span"]), "the diagnostic text does not derive from the reply's content")
        if consts and consts != {"OK", "OK."}:
            out.viol("C19.reply", "C19.reply|ok-constants", ctx.where(cb), "the pass reply is compared with %s; documented: OK, optionally followed by a period" % sorted(consts))
        elif consts:
            r += 1
    out.inst("C19.reply", r, 5, ["no choice|no content -> Err; OK|OK. (ascii-ci) -> pass; else -> diagnostic(reply)"], exhaustive=True)
    out = out_real

    # ------------------------------------------------------------------ task site args
    k = 0
    if res and len(res) == 3 and res[2]:
        co, task, calls = res
        bi, t = calls[0]
        resolve = asyncval.task_resolver(ctx, co, task)
        alls = [resolve(ctx.prov.read_operand(task, a)) for a in t["args"]]
        # (the argument produced by the content selector is the content, whatever else the block index it
        # was cut with has been through)
        is_content = lambda a: P.has_call(a, r"check_ai::block_content$")      # noqa: E731
        if any(P.has_const(a, NAME) and P.has_path(a, "attributes") and not is_content(a) for a in alls):
            k += 1
        else:
            out.viol("C19.args", "C19.args|condition", ctx.where(task, t["span"]), "no argument of check_block derives from the block's `check-ai` attribute (the condition)")
        if any(P.has_call(a, r"check_ai::block_content$") for a in alls):
            k += 1
        else:
            out.viol("C19.args", "C19.args|content", ctx.where(task, t["span"]), "no argument of check_block comes from the content selector")
        # the condition is passed as written (not transformed)
        for a in alls:
            if P.has_const(a, NAME) and P.has_path(a, "attributes") and not is_content(a):
                tr = sorted({l[1].split("::")[-1] for l in a if l[0] == "call" and re.search(r"trim|to_lowercase|to_uppercase|replace", l[1])})
                if tr:
                    out.viol("C19.args", "C19.args|condition-transformed", ctx.where(task, t["span"]), "the condition is transformed (%s) before it is sent" % tr)
                else:
                    k += 1
    out.inst("C19.args", k, 3, ["check_block(attrs['check-ai'], block_content(block))"])

    asyncval.check_collector(ctx, out, "C19", NAME)
    sel = ctx.facts.body("blockwatch::validators::check_ai::block_content")
    asyncval.check_content_selector(ctx, out, "C19", sel, "check-ai-pattern")
    # (the former sibling comparison of the two content selectors was dropped: each selector is decided
    # against the documented selection on its own - a change of the *other* validator's selector is not
    # a violation of this property, and a style difference between the two is not a violation at all)
    shared.sh_err(ctx, out, ctx.validator_bodies(NAME) + [b for b in ctx.reachable_bodies() if b.id.startswith("blockwatch::validators::run") or "check_ai" in b.id], floor=25)
    shared.sh_state(ctx, out, NAME)
    shared.sh_merge(ctx, out, ctx.reachable_bodies())
    # the validator only runs if the lazy detection loop creates it: every pending detector is asked
    # about every block (shared with C11/C13/C14)
    from rules.C14 import check_once as _detect_once, detect_fn as _detect_fn
    _dv = _detect_fn(ctx)
    if _dv is not None:
        _detect_once(ctx, out, _dv, rule="C19.detect")
    else:
        out.inst("C19.detect", 0, 4)
    # what a validator found is only reported if the report keeps every violation (shared with C11)
    from rules.C11 import check_items as _check_items
    shared.run_renamed(out, lambda o: _check_items(ctx, o), "C11", "C19")
    from rules.shared import check_detect_cases
    check_detect_cases(ctx, out, ["check-ai"], rule="C19.detectcase")
    shared.sh_flags(ctx, out, "check-ai", "C19.flags")
    asyncval.check_index_alignment(ctx, out, "C19.index", NAME)
    return meta()


def is_poll_loop(body, cfg, h):
    """The `.await` desugaring loops around poll/yield; that loop is not a repetition of the request."""
    blocks = cfg.loops()[h]
    return any(body.blocks[x]["term"] and body.blocks[x]["term"]["k"] == "yield" for x in blocks)


def meta():
    return {
        "explanation": "Decides the structure of check-ai on every path: task / request multiplicities, flow of the three environment variables into the client configuration and the request, the empty-key Err dominating the request, the user message as a Display-only format of condition and content, the complete reply table (no choice / no content -> only Err; pass only under eq_ignore_ascii_case with OK / OK.; otherwise the reply text becomes the diagnostic), collection of every joined result, content selection and its agreement with check-lua, and no swallowed Result in client, task and collector. It decides these structural parts; how the HTTP client maps faults to Err is dependency behaviour and not decided.",
        "undecided": "async-openai / reqwest behaviour on refused connections, 4xx statuses, malformed bodies (each arrives here as an Err of `create`, whose propagation IS checked).",
        "assumptions": [],
    }
