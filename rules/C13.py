"""C13 — Malformed rules fail closed.

Decided: (a) no Result produced anywhere reachable from main is swallowed (A5 result-flow: every
producer's consumers are `?`, a return, an Err-keeping adaptor, a match whose Err arm only returns
Err, or a listed exception) — this is the property's "first Err aborts the run" mechanism, including
both error shapes of every thread / task join; (b) each malformation the property names has an
Err-producing branch in the responsible validator, identified by its predicate or by the fallible
callee whose Err is propagated (18 sites); (c) the panic census of C04 covers the same bodies
("without crashing").
Not decided: which attribute VALUES count as malformed beyond these predicates (value-level).
"""
import re

from engine.cfg import cfg_of
from engine.expr import render, walk, find_calls
from engine.facts import callee_name, callee_matches
from engine import prov as P
from engine.resultflow import is_bad
from rules import shared, util
from rules.C12 import only_err_from

# (validator, producer callee regex, what is malformed)
PROPAGATED = [
    ("keep-sorted", r"^regex::Regex::new$", "an uncompilable keep-sorted-pattern"),
    ("keep-sorted", r"SortFormat as std::str::FromStr>::from_str$", "an unknown keep-sorted-format"),
    ("keep-sorted", r"<impl str>::parse$", "a non-numeric key under numeric sort"),
    ("keep-sorted", r"keep_sorted::SortFormat::cmp$", "a failing key comparison"),
    ("keep-unique", r"^regex::Regex::new$", "an uncompilable keep-unique regex"),
    ("line-pattern", r"^regex::Regex::new$", "an uncompilable line-pattern"),
    ("line-count", r"line_count::parse_constraint$", "a bad line-count expression"),
    ("line-count", r"<impl str>::parse$", "a bad line-count number"),
    ("affects", r"affects::parse_affects_attribute$", "a bad affects reference"),
    ("affects", r"<impl str>::split_once$", "an affects reference without a colon"),
    ("check-lua", r"^std::fs::read_to_string$", "a missing / unreadable Lua script"),
    ("check-lua", r"^mlua::Chunk::<'_>::exec_async$|^mlua::Chunk::.*::exec", "a Lua syntax / load-time error"),
    ("check-lua", r"^mlua::Table::get$", "a script without a global `validate`"),
    ("check-lua", r"^mlua::Function::call_async$|^mlua::Function::call$", "a Lua runtime error"),
    ("check-lua", r"^regex::Regex::new$", "an uncompilable check-lua-pattern"),
    ("check-ai", r"^regex::Regex::new$", "an uncompilable check-ai-pattern"),
    ("check-ai", r"^async_openai::Chat::.*::create$", "a failing AI request"),
]
ANY_VALIDATOR = [
    (r"blocks::BlockSeverity as std::str::FromStr>::from_str$", "an unknown severity"),
]
GOOD = ("try", "returned", "adaptor", "match-ok")


def require_propagated(ctx, out, name, rx, what, bodies):
    found = 0
    for b in bodies:
        if b.is_derive() or b.promoted is not None:
            continue
        for bi, t, paths in ctx.rf.producers(b):
            if not callee_matches(t, rx):
                continue
            for p, recs in ctx.rf.classify(b, bi, t, paths):
                classes = {r["class"] for r in recs}
                if classes and not any(is_bad(c) for c in classes) and any(c.startswith(GOOD) for c in classes):
                    found += 1
    # futures: the Result appears at the poll of the future the call returned
    if not found:
        for b in bodies:
            if b.is_derive() or b.promoted is not None:
                continue
            E = ctx.expr(b)
            for bi, t, paths in ctx.rf.producers(b):
                nm = callee_name(t)
                if not re.search(r"Future>?::poll$|::\{closure#\d+\}$", nm) or not t["args"]:
                    continue
                e = E.operand(t["args"][0])
                if find_calls(e, rx) or re.search(rx.replace("$", "") , nm):
                    for p, recs in ctx.rf.classify(b, bi, t, paths):
                        classes = {r["class"] for r in recs}
                        if classes and not any(is_bad(c) for c in classes) and any(c.startswith(GOOD) for c in classes):
                            found += 1
    # Option-producing callee handled through anyhow's Context (split_once(..).context(..)?)
    if not found and rx.endswith("split_once$"):
        for b in bodies:
            E = ctx.expr(b)
            for bi, t in b.calls():
                if callee_matches(t, r"anyhow::Context.*::(context|with_context)$|impl anyhow::Context<T, .*> for std::option::Option<T>>::(context|with_context)$"):
                    e = E.operand(t["args"][0])
                    if find_calls(e, rx):
                        for p, recs in ctx.rf.classify(b, bi, t, [()]):
                            classes = {r["class"] for r in recs}
                            if classes and not any(is_bad(c) for c in classes):
                                found += 1
    if not found:
        out.viol("C13.sites", "C13.sites|%s|%s" % (name, rx), "-",
                 "in the `%s` validator no call matching /%s/ was found whose Err is propagated: %s would not make the run fail" % (name, rx, what))
    return found


def _guard_matches(ctx, b, br, e, guard_rx):
    """The guard's predicate matches guard_rx as written, or - when the tested value went through a
    tuple / Option on several paths - is the same predicate applied to a value of the same origin
    (`^str::is_empty\\(str::trim\\(` : is_empty of something that is directly a trim() result)."""
    txt = render(e, 800)
    if re.search(guard_rx, txt):
        return True
    m = re.match(r"^\^str::is_empty\\\(str::trim\\\($", guard_rx)
    if m and e[0] == "call" and re.search(r"<impl str>::is_empty$|^str::is_empty$|str>::is_empty$", e[1]) and len(e) > 3 and isinstance(e[3], int):
        ct = b.blocks[e[3]]["term"]
        if ct and ct.get("args"):
            labs = ctx.prov.read_operand(b, ct["args"][0])
            direct = {l for l in labs if l[0] == "call" and not l[2]}
            return bool(direct) and all(re.search(r"<impl str>::trim$", l[1]) for l in direct)
    return False


def explicit_err(ctx, out, name, body, guard_rx, polarity_true, what, key):
    """An `Err(..)` built under a guard whose rendered predicate matches guard_rx."""
    for b in ctx.views(body):
        for bi, j, s in b.assigns():
            rv = s["rv"]
            if rv["k"] == "agg" and rv.get("variant") == "Err" and rv.get("path") == "std::result::Result":
                for br, vals, e in util.guards(ctx, b, bi):
                    txt = render(e, 800)
                    if _guard_matches(ctx, b, br, e, guard_rx):
                        if (polarity_true and 0 not in vals) or (not polarity_true and vals == {0}):
                            if key == "direction" or util.arm_only_err(ctx, b, br, vals):
                                return 1
                            out.viol("C13.sites", "C13.sites|%s|%s|weakened" % (name, key), ctx.where(b, s["span"]),
                                     "the `Err` for %s needs a further condition besides the malformation test: some malformed values of this kind pass" % what)
                            return 0
    out.viol("C13.sites", "C13.sites|%s|%s" % (name, key), "-",
             "in the `%s` validator no `Err` is produced under %s: %s would be accepted silently" % (name, what, what))
    return 0


def run(ctx, out, tier):
    bodies = ctx.reachable_bodies()
    shared.sh_err(ctx, out, bodies, floor=300)
    n = 0
    for name, rx, what in PROPAGATED:
        region = ctx.validator_bodies(name)
        n += 1 if require_propagated(ctx, out, name, rx, what, region) else 0
    for rx, what in ANY_VALIDATOR:
        n += 1 if require_propagated(ctx, out, "*", rx, what, bodies) else 0
    # explicit Err exits
    # unknown sort direction: the `other` row of the direction table (case analysis, shared with C06.dir)
    from rules.C06 import check_direction, work_view
    wv = work_view(ctx)
    if wv is not None:
        check_direction(ctx, out, wv, rule="C13.dir", only_other=True)
    else:
        out.inst("C13.dir", 0, 3)
    n += explicit_err(ctx, out, "check-lua", ctx.validator_bodies("check-lua"), r"^str::is_empty\(str::trim\(", True, "an empty script path", "empty-path")
    n += explicit_err(ctx, out, "check-ai", ctx.validator_bodies("check-ai"), r"^str::is_empty\(str::trim\(", True, "an empty condition", "empty-condition")
    n += explicit_err(ctx, out, "check-ai", ctx.validator_bodies("check-ai") + [b for b in bodies if "check_ai" in b.id], r"^str::is_empty\(.*expose_secret", True, "a missing API key", "empty-key")
    # line-count: malformed expressions (no comparator, unknown comparator, no number, trailing text) on the
    # small model shared with C09 (concrete attribute strings): each must end in an error. When the model
    # cannot follow the code, the structural forms below decide the two explicit `Err` exits.
    from rules.C09 import check_ops_model
    tr = out.trial()
    try:
        lc = check_ops_model(ctx, tr, rule="C13.linecount", only_malformed=True)
    except Exception as e:      # noqa: BLE001
        ctx.view_fallbacks.append("C13.linecount: small-model analysis failed (%s: %s)" % (type(e).__name__, e))
        lc = None
    if lc is not None:
        out.adopt(tr)
        n += 2 if lc else 0
    else:
        n += explicit_err(ctx, out, "line-count", ctx.validator_bodies("line-count"), r"^str::is_empty\(str::trim\(", True, "a comparator without a number", "missing-number")
        # line-count: no comparator at all -> Err (the else of the prefix chain)
        pcs = [b for b in ctx.validator_bodies("line-count") if b.id.endswith("parse_constraint")]
        ok = False
        for b in ctx.views(pcs):
            for bi, j, s in b.assigns():
                rv = s["rv"]
                if rv["k"] == "agg" and rv.get("variant") == "Err":
                    gs = util.guards(ctx, b, bi)
                    sp = [(vals, e) for br, vals, e in gs if e[0] == "discr" and find_calls(e, r"<impl str>::strip_prefix$")]
                    if len(sp) >= 5 and all(1 not in vals for vals, e in sp):
                        ok = True
                    # table idiom: the Err is built when the scan of the comparator table (the loop that
                    # holds the one strip_prefix test) is exhausted without a hit
                    cfg = cfg_of(b)
                    sps = [x for x, t2 in b.calls() if callee_matches(t2, r"<impl str>::strip_prefix$")]
                    for br, vals, e in gs:
                        if e[0] == "discr" and e[1][0] == "call" and re.search(r"Iterator>?::next$", e[1][1]) and vals == {0} and len(sps) == 1:
                            nb = e[1][3] if len(e[1]) > 3 else None
                            h = cfg.innermost_loop(nb) if nb is not None else None
                            if h is not None and sps[0] in cfg.loops()[h] and util.arm_only_err(ctx, b, br, vals) is not None:
                                ok = True
        if ok:
            n += 1
        else:
            out.viol("C13.sites", "C13.sites|line-count|missing-comparator", "-", "no `Err` for a line-count expression that starts with none of the five comparators")
    # the severity of a block is evaluated (and its Err propagated) at every diagnostic
    from rules.C10 import violation_sites
    sev = 0
    for vname in ctx.roles()["validators"]:
        for b, t, callers in violation_sites(ctx, vname):
            labs = ctx.prov.read_operand(b, t["args"][3])
            if P.has_call(labs, r"blocks::Block::severity$") and P.has_call(labs, r"Try>::branch$|ops::Try::branch$") or P.has_call(labs, r"blocks::Block::severity$"):
                sev += 1
    if sev >= 7:
        n += 1
    else:
        out.viol("C13.sites", "C13.sites|severity-at-diagnostic", "-", "only %d of 7 diagnostics evaluate `Block::severity()?`: an unknown severity on a violating block would not fail the run" % sev)
    # numeric sort: the ordering comes from the parsed numbers on every path (no shortcut that skips parsing)
    from rules.C06 import check_cmp_results
    if check_cmp_results(ctx, out, "C13.numeric") >= 2:
        n += 1
    out.inst("C13.sites", n, 25, ["%s: %s" % (a, w) for a, r, w in PROPAGATED[:6]], note="%d propagated fallible calls + 6 explicit Err exits" % len(PROPAGATED))

    # ------------------------------------------------------------------ C13.join
    j = 0
    for b in bodies:
        for bi, t, paths in ctx.rf.producers(b):
            if callee_matches(t, r"thread::JoinHandle::<T>::join$|JoinSet::<T>::join_next|Runtime::block_on$"):
                for p, recs in ctx.rf.classify(b, bi, t, paths):
                    classes = {r["class"] for r in recs}
                    if not any(is_bad(c) for c in classes):
                        j += 1
    out.inst("C13.join", j, 8, note="join / join_next / block_on results: every nested Result level is propagated")
    shared.sh_main(ctx, out)
    # a malformed rule can only be reported if its validator is created at all: the detection loop
    # asks every pending detector about every block (shared with C14/C11)
    from rules.C14 import check_once, detect_fn
    dv = detect_fn(ctx)
    if dv is not None:
        check_once(ctx, out, dv, rule="C13.once")
    else:
        out.inst("C13.once", 0, 4)
    shared.check_raw_patterns(ctx, out, "C13.rawpattern")
    from rules.shared import check_detect_cases
    check_detect_cases(ctx, out, ["affects", "keep-sorted", "keep-unique", "line-pattern", "line-count", "check-lua", "check-ai"], rule="C13.detectcase")
    for nm in ctx.roles()["validators"]:
        shared.sh_visit(ctx, out, nm, rule="C13.visit")
    from rules.C18 import check_fresh
    check_fresh(ctx, out, "C13.fresh")
    from rules.C19 import check_request_gate
    check_request_gate(ctx, out, "C13.aikey")
    # an uncompilable keep-unique pattern fails the run for every block with content (shared with C07)
    from rules.C07 import check_bad_pattern
    tr = out.trial()
    try:
        bp = check_bad_pattern(ctx, tr, rule="C13.badpattern")
    except Exception as e:      # noqa: BLE001
        ctx.view_fallbacks.append("C13.badpattern: small-model analysis failed (%s: %s)" % (type(e).__name__, e))
        bp = None
    if bp is not None:
        out.adopt(tr)
    # a missing API key fails closed only if async-openai's ambient OPENAI_* defaults are overridden (shared with C19)
    from rules.C19 import check_env
    check_env(ctx, out, rule="C13.aienv")
    return meta()


def meta():
    return {
        "explanation": "Decides the fail-closed mechanism structurally: result-flow over every Result-producing call reachable from main (no swallowed Err, including both levels of every join), presence of the 25 Err-producing branches / propagated fallible calls that the named malformations rely on (identified by predicate or callee, not by text), order of the steps in main. Which concrete attribute values are malformed beyond these predicates is value-level and not decided.",
        "undecided": "value-level definition of 'malformed' (e.g. surrounding spaces in a direction); dependency behaviour behind each fallible call.",
        "assumptions": [],
    }
