"""C13 — Malformed rules fail closed (structural part: SH.err over validators, detection, run*, main)."""
from rules import shared


def run(ctx, out, tier):
    bodies = ctx.reachable_bodies()
    shared.sh_err(ctx, out, bodies, floor=300)
    shared.sh_main(ctx, out)
    return {"explanation": "wip"}
