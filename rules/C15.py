"""C15 — Only files in scope are examined: globs, --ignore and diff paths.

Decided: every call of the file parser is guarded by `should_ignore(path) == false` on the same
path (the walk site also by `should_allow(path) == true`; the diff site deliberately not); the
allow / ignore predicates test the positional / --ignore glob sets respectively and these come from
the right flags; the diff target path loses exactly one `b/`; the file-system root is the repository
root found from the canonicalised current directory, files are read below it and walked paths are
made relative to it; std::fs is used only by the file-system role, root discovery and the Lua
script loader; the walker's standard filters (hidden, git-ignored) are not switched off; files
without a grammar are never read.
Not decided: glob semantics (globset) and the traversal done by the `ignore` crate.
"""
import re

from engine.cfg import cfg_of
from engine.expr import render, walk, find_calls
from engine.facts import callee_name, callee_matches
from engine import prov as P
from rules import shared, util
from rules.C12 import file_parser
from rules.C01 import check_prefix


def root_search_model(ctx, out, rr, rule="C15.root"):
    """The repository-root search on a small model (engine.casewalk + listmodel + strmodel): started in `/a/b/c`
    with `.git` / `.hg` directories at chosen places, the function returns the *nearest* ancestor (the start
    directory included) that has one of the two - whichever of the two it is - and an error when none has.
    True / False (a violation is recorded) / None when the model cannot follow the code."""
    from engine import casewalk as CW
    from engine import listmodel as LM
    from engine import strmodel as SM
    std, lm, sm = CW.std_hooks(), LM.hooks(), SM.hooks()
    v = ctx.inl(rr, skip=lambda cb: False, tag="all-sugar", sugar=True)
    if v.argc != 1:
        return None
    start = "/a/b/c"
    anc = ["/a/b/c", "/a/b", "/a", "/"]
    cases = [set(), {"/a/b/c/.git"}, {"/a/.git"}, {"/a/b/.hg"}, {"/a/.hg", "/a/b/.git"}, {"/a/.git", "/a/b/.hg"}, {"/a/b/.git", "/a/b/.hg"},
             {"/.hg", "/a/b/c/.git"}, {"/a/.hg"}, {"/a/b/c/.hg", "/a/.git"}, {"/a/b/.svn"}]
    n = 0
    for dirs in cases:
        results = set()

        def hook(w, bb, t, argv, env, dirs=dirs):
            nm = callee_name(t)
            a0 = w.deref_val(env, argv[0]) if argv else CW.TOP
            if re.search(r"std::path::Path::ancestors$", nm) and CW.is_const(a0) and isinstance(a0[1], str):
                p_ = a0[1]
                out_ = [p_]
                while p_ != "/":
                    p_ = p_.rsplit("/", 1)[0] or "/"
                    out_.append(p_)
                return LM.itr(tuple(CW.const(x) for x in out_))
            if re.search(r"std::path::Path::parent$", nm) and CW.is_const(a0) and isinstance(a0[1], str):
                if a0[1] == "/":
                    return CW.adt("std::option::Option", "None", 0, [])
                return CW.adt("std::option::Option", "Some", 1, [("0", CW.const(a0[1].rsplit("/", 1)[0] or "/"))])
            if re.search(r"std::path::Path::join$|std::path::PathBuf::join$", nm) and len(argv) > 1:
                a1 = w.deref_val(env, argv[1])
                if CW.is_const(a0) and CW.is_const(a1) and isinstance(a0[1], str) and isinstance(a1[1], str):
                    return CW.const(("" if a0[1] == "/" else a0[1]) + "/" + a1[1])
                return None
            if re.search(r"std::path::PathBuf::pop$", nm) and argv and argv[0][0] == "ref" and CW.is_const(a0) and isinstance(a0[1], str):
                # in place: the path loses its last component (false at the root)
                w.mut_handled = True
                if a0[1] == "/":
                    return CW.const(0)
                w.write_place(env, {"l": argv[0][1], "p": [CW._thaw(x) for x in argv[0][2]]}, CW.const(a0[1].rsplit("/", 1)[0] or "/"))
                return CW.const(1)
            if re.search(r"std::path::Path::(is_dir|exists|try_exists)$", nm) and CW.is_const(a0):
                return CW.const(1 if a0[1] in dirs else 0)
            if re.search(r"std::path::Path::(to_path_buf|as_ref|to_owned)$|PathBuf::(as_path|from)$|Path::new$", nm) and CW.is_const(a0):
                return a0
            for hk in (sm, lm, std):
                r_ = hk(w, bb, t, argv, env)
                if r_ is not None:
                    return r_
            return None
        w = CW.Walk(ctx, v, [hook], max_states=8000)

        def on_visit(bb, env):
            tm = v.blocks[bb]["term"]
            if tm and tm["k"] == "return":
                r0 = w.deref_val(env, env.get(0, CW.TOP))
                if r0[0] == "adt" and r0[2] == "Ok":
                    p0 = w.deref_val(env, w.field(r0, "0"))
                    results.add(p0[1] if CW.is_const(p0) and isinstance(p0[1], str) else "?")
                elif r0[0] == "adt" and r0[2] == "Err":
                    results.add("error")
                else:
                    results.add("?")
        w.on_visit = on_visit
        try:
            w.explore(0, {1: CW.const(start)})
        except CW.Limit:
            return None
        if len(results) != 1 or "?" in results:
            return None
        want = next((a for a in anc if ((a if a != "/" else "") + "/.git") in dirs or ((a if a != "/" else "") + "/.hg") in dirs), "error")
        got = next(iter(results))
        if got == want:
            n += 1
        else:
            out.viol(rule, "%s|search|model" % rule, ctx.where(rr),
                     "repository root search started in %s with marker directories %s: the result is %s; expected %s - the nearest ancestor that has a `.git` or a `.hg` directory (with another root every path blockwatch matches, reads and reports changes)" % (
                         start, sorted(dirs) or "none", got, want))
            return False
    return True


def run(ctx, out, tier):
    from rules.C12 import check_walkfiles
    check_walkfiles(ctx, out, rule="C15.walkfiles")
    fp = file_parser(ctx)
    n = 0
    samples = []
    if fp is None:
        out.inst("C15.ignore", 0, 3, note="file parser not found")
    else:
        from rules.C02 import parser_call_sites, check_consume
        check_consume(ctx, out, fp, "C15.consume")
        for b, bi, t in parser_call_sites(ctx, fp):
            if True:
                in_walk = any(bi in (util.iter_region(b, nb) | set(bl)) for h, bl, nb in util.loop_of_next(ctx, b, r"FileSystem::walk\("))
                gs = util.guards(ctx, b, bi)
                E = ctx.expr(b)
                path_labs = ctx.prov.read_operand(b, t["args"][0])
                ign = [(vals, e) for br, vals, e in gs if e[0] == "call" and re.search(r"PathChecker::should_ignore$", e[1])]
                alw = [(vals, e) for br, vals, e in gs if e[0] == "call" and re.search(r"PathChecker::should_allow$", e[1])]
                # `!allow || ignore` is lowered to two switches; polarity: ignore must be false
                if ign and all(vals == {0} for vals, e in ign):
                    n += 1
                    samples.append("%s: !should_ignore" % ("walk" if in_walk else "diff"))
                    # same path value
                    for vals, e in ign:
                        call = [bj for bj, tj in b.calls() if callee_matches(tj, r"PathChecker::should_ignore$") and cfg_of(b).dominates(bj, bi)]
                        ok_same = False
                        for bj in call:
                            la = ctx.prov.read_operand(b, b.blocks[bj]["term"]["args"][1])
                            if {l for l in la if l[0] != "const"} & {l for l in path_labs if l[0] != "const"}:
                                ok_same = True
                        if not ok_same:
                            out.viol("C15.ignore", "C15.ignore|other-path|%s" % ("walk" if in_walk else "diff"), ctx.where(b, t["span"]),
                                     "the ignore test is applied to a different path than the one that is parsed")
                else:
                    out.viol("C15.ignore", "C15.ignore|%s" % ("walk" if in_walk else "diff"), ctx.where(b, t["span"]),
                             "the file parser is called at the %s site on a path that is not guarded by `!should_ignore(path)`: a file matching --ignore would be read and could contribute blocks, diagnostics or errors" % ("walk" if in_walk else "diff"))
                if in_walk:
                    if alw and all(0 not in vals for vals, e in alw):
                        n += 1
                        samples.append("walk: should_allow")
                    else:
                        out.viol("C15.ignore", "C15.ignore|walk-allow", ctx.where(b, t["span"]),
                                 "walked files are parsed without `should_allow(path)`: files outside the positional globs would be examined")
        out.inst("C15.ignore", n, 3, samples)

    # every file named in the diff is examined unless ignored: the diff entry of a walked file may
    # only be consumed after the allow / ignore decision (shared with C02.mode)
    if fp is not None:
        from rules.C02 import check_mode
        check_mode(ctx, out, fp)

    # ------------------------------------------------------------------ C15.checker
    m = 0
    impls = ctx.facts.impls_of_trait(r"blocks::PathChecker$")
    for imp in impls:
        for meth in imp["methods"]:
            b = ctx.facts.body(meth["def"])
            if b is None:
                continue
            labs = ctx.prov.read_local(b, 0, ())
            fields = {l[2][0] for l in labs if l[0] == "param" and l[1] == 1 and l[2]}
            want = {"should_allow": "glob_set", "should_ignore": "ignored_glob_set"}.get(meth["name"])
            if want is None:
                continue
            if fields == {want} and P.has_call(labs, r"globset::GlobSet::is_match$") and not any(x[0] == "un" for x in walk(ctx.expr(b).local(0))):
                m += 1
            else:
                out.viol("C15.checker", "C15.checker|%s" % meth["name"], ctx.where(b),
                         "`%s` tests field(s) %s (expected `%s`, un-negated `GlobSet::is_match`)" % (meth["name"], sorted(fields), want))
    main = ctx.main_view()
    if main is not None:
        for bi, t in main.calls():
            if callee_matches(t, r"blocks::PathCheckerImpl::new$"):
                a0 = ctx.prov.read_operand(main, t["args"][0])
                a1 = ctx.prov.read_operand(main, t["args"][1])
                if P.has_call(a0, r"flags::Args::globs$") and not P.has_call(a0, r"flags::Args::ignored_globs$") and P.has_call(a1, r"flags::Args::ignored_globs$") and not P.has_call(a1, r"flags::Args::globs$"):
                    m += 1
                else:
                    out.viol("C15.checker", "C15.checker|ctor-args", ctx.where(main, t["span"]), "PathCheckerImpl::new is not called with (positional globs, --ignore globs) in that order")
        ctor = ctx.facts.body("blockwatch::blocks::PathCheckerImpl::new")
        if ctor is not None:
            g = ctx.prov.read_local(ctor, 0, ("glob_set",))
            i = ctx.prov.read_local(ctor, 0, ("ignored_glob_set",))
            if {l[1] for l in g if l[0] == "param"} == {1} and {l[1] for l in i if l[0] == "param"} == {2}:
                m += 1
            else:
                out.viol("C15.checker", "C15.checker|ctor-fields", ctx.where(ctor), "PathCheckerImpl::new stores its arguments in the wrong fields")
    for acc, field in (("globs", "globs"), ("ignored_globs", "ignore")):
        b = ctx.facts.body("blockwatch::flags::Args::%s" % acc)
        if b is None:
            out.viol("C15.checker", "C15.checker|accessor|%s" % acc, "-", "Args::%s not found" % acc)
            continue
        fields = set()
        for bb in ctx.facts.with_descendants(b):
            for bi, j, s in bb.assigns():
                rv = s["rv"]
                pls = []
                if "place" in rv:
                    pls.append(rv["place"])
                for key in ("op",):
                    o = rv.get(key)
                    if isinstance(o, dict) and (o.get("c") or o.get("m")):
                        pls.append(o.get("c") or o.get("m"))
                for pl in pls:
                    for e in pl["p"]:
                        if isinstance(e, dict) and e.get("adt") == "blockwatch::flags::Args":
                            fields.add(e["f"])
        ok = (field in fields) and not ({"globs", "ignore"} - {field}) & fields
        if ok:
            m += 1
        else:
            out.viol("C15.checker", "C15.checker|accessor|%s" % acc, ctx.where(b), "Args::%s builds its glob set from field(s) %s; expected `%s`" % (acc, sorted(fields), field))
    out.inst("C15.checker", m, 6, ["allow<-glob_set<-Args::globs; ignore<-ignored_glob_set<-Args::ignored_globs"])

    # ------------------------------------------------------------------ C15.prefix
    check_prefix(ctx, out)
    from rules.C01 import check_skipfile
    check_skipfile(ctx, out, rule="C15.skipfile")

    # ------------------------------------------------------------------ C15.root
    k = 0
    if main is not None:
        cds = [(b, bi, t) for b in ctx.reachable_bodies() for bi, t in b.calls() if callee_matches(t, r"^std::env::current_dir$")]
        if len(cds) == 1 and cds[0][0].id == "bwbin::main":
            k += 1
        else:
            out.viol("C15.root", "C15.root|current-dir-uses", "-", "std::env::current_dir is used at %d site(s) (%s); it must only seed the repository-root search" % (len(cds), [ctx.where(b, t["span"]) for b, bi, t in cds]))
        for bi, t in main.calls():
            if callee_matches(t, r"blocks::FileSystemImpl::new$"):
                labs = ctx.prov.read_operand(main, t["args"][0])
                if P.has_call(labs, r"repository_root_path$") and P.has_call(labs, r"^std::fs::canonicalize$") and P.has_call(labs, r"^std::env::current_dir$"):
                    k += 1
                else:
                    out.viol("C15.root", "C15.root|fs-root", ctx.where(main, t["span"]),
                             "the file-system root derives from [%s]; expected repository_root_path(canonicalize(current_dir()))" % util.origins_text({l for l in labs if l[0] == "call"}, 5))
        rr = ctx.facts.bodies.get("bwbin::repository_root_path")
        root_verdict = root_search_model(ctx, out, rr) if rr is not None else None
        if root_verdict is True:
            k += 1
        elif rr is not None and root_verdict is None:
            region = ctx.region(rr)             # with its closures and helpers
            names = set()
            for rb in region:
                for bi, t in rb.calls():
                    if callee_matches(t, r"std::path::Path::join$"):
                        c = util.const_val(ctx, rb, t["args"][1])
                        if isinstance(c, str):
                            names.add(c)
                # the directory names may come from a constant table (`[".git", ".hg"].iter().any(..)`)
                for bi, j, s in rb.assigns():
                    rv = s["rv"]
                    kk = rv["op"].get("k") if rv["k"] == "use" and isinstance(rv.get("op"), dict) else None
                    if isinstance(kk, dict) and kk.get("uneval") and re.search(r"\[&str; \d+\]", kk.get("ty") or ""):
                        rows = util.const_table(ctx, kk)
                        if rows and all(isinstance(x, str) for x in rows):
                            names |= set(rows)
            calls = [callee_name(t).split("::")[-1] for rb in region for bi, t in rb.calls()]
            farthest = [c for c in calls if c in ("rev", "last", "max_by", "max_by_key", "min_by", "min_by_key", "nth", "skip")]
            # nearest ancestor: `ancestors().find(..)`, or a loop that tests a directory and then moves to its parent()
            if names == {".git", ".hg"} and ("ancestors" in calls or "parent" in calls) and "is_dir" in calls and not farthest:
                k += 1
            else:
                out.viol("C15.root", "C15.root|search", ctx.where(rr), "repository_root_path looks for %s via %s; expected the nearest ancestor containing a `.git` or `.hg` directory" % (sorted(names), sorted(set(calls))[:8]))
    fsimpl = ctx.facts.impls_of_trait(r"blocks::FileSystem$")
    for imp in fsimpl:
        for meth in imp["methods"]:
            b = ctx.facts.body(meth["def"])
            if b is None:
                continue
            region = ctx.facts.with_descendants(b)
            if meth["name"] == "walk":
                # a walk that returns an iterator type of the crate's own: its `next` is part of the walk
                from rules.C12 import walk_iterator_next
                nxt = walk_iterator_next(ctx, b)
                if nxt is not None:
                    region = list(region) + list(ctx.facts.with_descendants(nxt))
            if meth["name"] == "read_to_string":
                for rb in region:
                    for bi, t in rb.calls():
                        if callee_matches(t, r"^std::fs::read_to_string$"):
                            labs = ctx.prov.read_operand(rb, t["args"][0])
                            if P.has_call(labs, r"std::path::Path::join$") and P.has_path(labs, "root_path") and any(l[0] == "param" and l[1] == 2 for l in labs):
                                k += 1
                            else:
                                out.viol("C15.root", "C15.root|read-path", ctx.where(rb, t["span"]), "files are read from [%s]; expected root_path.join(path)" % util.origins_text(labs, 5))
            if meth["name"] == "walk":
                walks = [(rb, t) for rb in region for bi, t in rb.calls() if callee_matches(t, r"^ignore::(Walk::new|WalkBuilder::new)$")]
                for rb, t in walks:
                    labs = ctx.prov.read_operand(rb, t["args"][0])
                    if P.has_path(labs, "root_path"):
                        k += 1
                    else:
                        out.viol("C15.root", "C15.root|walk-root", ctx.where(rb, t["span"]), "the directory walk does not start at the repository root")
                sp = [(rb, t) for rb in ctx.region(b) + list(region) for bi, t in rb.calls() if callee_matches(t, r"std::path::Path::strip_prefix$")]
                if sp:
                    k += 1
                else:
                    out.viol("C15.root", "C15.root|relative", ctx.where(b), "walked paths are not made relative to the root (strip_prefix) before they are matched against globs")
                # standard filters stay on
                for rb in region:
                    for bi, t in rb.calls():
                        if callee_matches(t, r"^ignore::WalkBuilder::(hidden|git_ignore|git_global|git_exclude|ignore|parents|standard_filters|require_git)$"):
                            v = util.const_val(ctx, rb, t["args"][1]) if len(t["args"]) > 1 else None
                            if v != 1 or callee_name(t).endswith("require_git"):
                                out.viol("C15.walk", "C15.walk|%s" % callee_name(t).split("::")[-1], ctx.where(rb, t["span"]),
                                         "the walker's `%s` filter is changed: hidden or git-ignored files would be examined" % callee_name(t).split("::")[-1])
                out.inst("C15.walk", len(walks), 1, ["ignore::Walk::new(root) with standard filters"])
    out.inst("C15.root", k, 6, ["root := repository_root_path(canonicalize(current_dir()?)?)?; read root.join(path); walk root, strip_prefix(root)"])

    # ------------------------------------------------------------------ C15.fs — who may touch the file system
    allowed = re.compile(r"^<blockwatch::blocks::FileSystemImpl as blockwatch::blocks::FileSystem>::|^bwbin::main$")

    def script_loader(b, t):
        """the check-lua validator reading the user's script: a read-only call in the check_lua module
        whose result is what `Lua::load` is given (not a file under examination)"""
        if "validators::check_lua::" not in b.id or not callee_matches(t, r"^(std|tokio)::fs::(read_to_string|read)$"):
            return False
        for bj, tj in b.calls():
            if callee_matches(tj, r"^mlua::Lua::load$") and len(tj["args"]) > 1 and P.has_call(ctx.prov.read_operand(b, tj["args"][1]), re.escape(callee_name(t)) + "$"):
                return True
        return False
    fsn = 0
    for b in ctx.reachable_bodies():
        for bi, t in b.calls():
            if callee_matches(t, r"^std::fs::|^std::fs::File|^std::fs::OpenOptions|^tokio::fs::"):
                fsn += 1
                if not allowed.search(b.id) and not script_loader(b, t):
                    out.viol("C15.fs", "C15.fs|%s|%s" % (b.id, callee_name(t).split("::")[-1]), ctx.where(b, t["span"]),
                             "`%s` is called outside the file-system role: a file could be examined without passing the glob / --ignore decision" % callee_name(t))
    out.inst("C15.fs", fsn, 3, note="std::fs call sites (FileSystemImpl::read_to_string, main's canonicalize, Lua script loader)")
    # the trait method is reached only through the file parser
    readers = [(b, t) for b in ctx.reachable_bodies() for bi, t in b.calls() if callee_matches(t, r"blocks::FileSystem::read_to_string$")]
    if fp is not None and all(b.id == fp.id for b, t in readers) and readers:
        out.inst("C15.reader", len(readers), 1, [fp.id])
    else:
        out.viol("C15.reader", "C15.reader|sites", "-", "FileSystem::read_to_string is called from %s; expected only the file parser" % sorted({b.id for b, t in readers}))
        out.inst("C15.reader", 0, 1)

    bodies = [b for b in ctx.reachable_bodies() if b.id.startswith("blockwatch::blocks::") or b.id.startswith("<blockwatch::blocks::") or b.id.startswith("bwbin::") or b.id.startswith("blockwatch::flags::") or b.id.startswith("blockwatch::diff_parser::")]
    shared.sh_err(ctx, out, bodies, floor=40)
    shared.sh_main(ctx, out)
    check_globs_merge(ctx, out)
    from rules.C02 import check_scan
    check_scan(ctx, out, rule="C15.scan")
    from rules.C14 import check_cli_shape
    check_cli_shape(ctx, out, "C15.cli", {"ignore": "option", "globs": "positional", "list:globs": "positional"})
    return meta()


def check_globs_merge(ctx, out, rule="C15.globs"):
    """Args::globs() compiles the top-level positional globs AND the `list` subcommand's globs; every
    pattern handed to Glob::new comes from one of the two lists, and both lists reach it."""
    n = 0
    cands = [b for b in ctx.reachable_bodies() if b.promoted is None and re.search(r"flags::Args::\w+$", b.id) and "GlobSet" in b.local_ty(0)]
    for b in cands:
        b = ctx.inl(b, skip=ctx.domain_api, tag="domain", sugar=True)     # a shared `compile(patterns)` helper is looked through
        for bi, t in b.calls():
            if callee_matches(t, r"globset::Glob::new$"):
                labs = ctx.prov.read_operand(b, t["args"][0])
                top = P.has_path(labs, "globs") and any(lab[2][:1] == ("globs",) for lab in labs)
                sub = any("command" in lab[2] and "globs" in lab[2] for lab in labs)
                ign = any(lab[2][:1] == ("ignore",) for lab in labs)
                altered = sorted({lab[1] for lab in labs if lab[0] == "call" and re.search(r"(<impl str>|string::String|str::pattern|std::path::Path|std::path::PathBuf|std::ffi::OsStr)::", lab[1])
                                  and not re.search(r"::(as_str|as_ref|len|is_empty|iter|deref|borrow|clone|to_owned|to_string|as_bytes|chars)$", lab[1])})
                if altered:
                    out.viol(rule, "%s|%s|altered" % (rule, b.name), ctx.where(b, t["span"]),
                             "the pattern handed to Glob::new has passed through %s: a glob is compiled exactly as the user wrote it (a rewritten pattern matches a different set of files — `.ci/**` is not `ci/**`)" % [a.split("::")[-1] for a in altered])
                elif ign and not top and not sub:
                    n += 1
                elif top and sub and not ign:
                    n += 1
                else:
                    out.viol(rule, "%s|%s" % (rule, b.name), ctx.where(b, t["span"]),
                             "the patterns compiled here come from [%s]; expected: the positional globs together with the `list` subcommand's globs (or the --ignore globs alone)" % util.origins_text({l for l in labs if l[0] == "param"}, 6))
    out.inst(rule, n, 2, [b.id for b in cands], exhaustive=True)


def meta():
    return {
        "explanation": "Decides as control-dependence, provenance and who-may-call facts: ignore (and, when walking, allow) guards in front of every file-parser call on the same path value; the predicate/field/flag wiring of the two glob sets; single `b/` strip of the target path; root discovery and its use for reading and walking; std::fs confined to the file-system role, root discovery and the Lua loader; standard walker filters untouched. It decides these structural parts; what a glob matches and what the walker yields is not decided.",
        "undecided": "globset matching semantics; the ignore crate's traversal and .gitignore handling.",
        "assumptions": [],
    }
