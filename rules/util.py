"""Helpers shared by the property rules."""
import re

from engine.cfg import cfg_of, dag_of
from engine.expr import render, walk, find_calls
from engine.facts import callee_name, callee_matches
from engine import prov as P


def op_place(op):
    return op.get("c") or op.get("m")


def const_of(ctx, op):
    """Python value of a constant operand (str / int / char), else None."""
    k = op.get("k")
    if not k:
        return None
    s = ctx.facts.const_str(k)
    if s is not None:
        return s
    if k.get("ty") == "char" and "int" in k:
        return chr(k["int"])
    i = ctx.facts.const_int(k)
    if i is not None:
        return k.get("sint", i)
    return None


def const_val(ctx, body, op):
    """Like const_of, but also sees through single-definition temporaries (`&*"value"`)."""
    v = const_of(ctx, op)
    if v is not None:
        return v
    e = ctx.expr(body).operand(op)
    if e[0] == "const" and not (isinstance(e[1], str) and e[1].startswith("fn:")):
        return e[1]
    return None


def iter_region(body, next_bb):
    """Blocks executed as part of one iteration of the loop driven by the `next()` call in next_bb,
    including paths that `break` / `return` out of it (up to where they merge with the normal exit):
    everything dominated by the Some-arm of the switch on the next() result."""
    cfg = cfg_of(body)
    succs = cfg.succ[next_bb]
    if not succs:
        return set()
    sw = succs[0]
    t = body.blocks[sw]["term"]
    if not t or t["k"] != "switch":
        return set()
    arms = switch_arms(body, sw)
    some = arms.get(1)
    if some is None:
        return set()
    return {x for x in cfg.reachable if cfg.dominates(some, x)}


def skip_trivial(body, bb):
    """Follow goto / falseedge / falseunwind blocks without statements to the first real block."""
    seen = set()
    while bb not in seen:
        seen.add(bb)
        b = body.blocks[bb]
        t = b["term"]
        real_stmts = [s for s in b["stmts"] if s["k"] == "assign"]
        if not real_stmts and t and t["k"] in ("goto", "falseedge", "falseunwind"):
            bb = t["t"]
            continue
        break
    return bb


def switch_arms(body, bb):
    """{value or 'otherwise': target} of a switch terminator."""
    t = body.blocks[bb]["term"]
    arms = {}
    for v, tg in zip(t["vals"], t["targets"]):
        arms[v] = tg
    arms["otherwise"] = t["otherwise"]
    return arms


def switch_operand_expr(ctx, body, bb):
    t = body.blocks[bb]["term"]
    return ctx.expr(body).operand(t["op"])


def guards(ctx, body, bb, stop_at=None):
    """Transitive control-dependence chain of `bb` within one loop iteration (back edges removed):
    list of (branch_bb, taken_values, operand_expr). taken_values is the set of switch values (or
    'otherwise') whose edge leads towards `bb`. A switch all of whose explicit arms lead to `bb`
    (only an `unreachable` otherwise-arm does not) is not a guard and is left out."""
    cfg = dag_of(body)
    by_br = {}
    seen = set()
    work = [bb]
    while work:
        x = work.pop()
        for (br, succ) in cfg.control_deps(x):
            t = body.blocks[br]["term"]
            if not t or t["k"] != "switch":
                continue
            key = (br, succ)
            if key in seen:
                continue
            seen.add(key)
            vals = by_br.setdefault(br, set())
            for v, tg in zip(t["vals"], t["targets"]):
                if tg == succ:
                    vals.add(v)
            if t["otherwise"] == succ:
                vals.add("otherwise")
            if stop_at is None or br not in stop_at:
                if br != x:
                    work.append(br)
    out = []
    for br, vals in by_br.items():
        t = body.blocks[br]["term"]
        ow = body.blocks[t["otherwise"]]["term"]
        if set(t["vals"]) <= vals and ("otherwise" in vals or (ow and ow["k"] == "unreachable")):
            continue
        e = switch_operand_expr(ctx, body, br)
        # `!x` as the tested value: report the test on x with the arms swapped
        while e[0] == "un" and e[1] == "Not" and t.get("op_ty", "bool") == "bool":
            e = e[2]
            vals = ({"otherwise"} if 0 in vals else set()) | ({0} if (vals - {0}) else set())
        out.append((br, vals, e))
    return out


def guard_texts(ctx, body, bb):
    return [(br, sorted(map(str, vals)), render(e, 600)) for br, vals, e in guards(ctx, body, bb)]


def calls_matching(body, regex):
    return [(bi, t) for bi, t in body.calls() if callee_matches(t, regex)]


def violation_push_sites(body):
    """Vec<Violation>::push call sites."""
    out = []
    for bi, t in body.calls():
        if callee_matches(t, r"Vec::<T, A>::push$"):
            a0 = (t.get("arg_tys") or [""])[0]
            if "std::vec::Vec<blockwatch::validators::Violation>" in a0:
                out.append((bi, t))
    return out


def loop_of_next(ctx, body, regex):
    """Loops whose driving `Iterator::next` receiver expression matches regex: [(header, blocks, next_bb)]."""
    cfg = cfg_of(body)
    E = ctx.expr(body)
    out = []
    for bi, t in body.calls():
        if not callee_matches(t, r"Iterator>?::next$"):
            continue
        txt = render(E.operand(t["args"][0]), 3000)
        if not re.search(regex, txt):
            continue
        h = cfg.innermost_loop(bi)
        if h is None:
            continue
        out.append((h, cfg.loops()[h], bi))
    return out


def loop_exits(body, cfg, blocks):
    """Edges (x, y) leaving the loop `blocks`."""
    out = []
    for x in blocks:
        for y in cfg.succ[x]:
            if y not in blocks:
                out.append((x, y))
    return out


def normal_loop_exit(body, cfg, header, blocks, next_bb):
    """The exit taken when the driving iterator returns None (the 'loop finished' edge): the target
    of the `None` arm of the switch on the next() result."""
    # next_bb: call block; its successor switches on discr of the result
    succs = cfg.succ[next_bb]
    if not succs:
        return None
    sw = succs[0]
    t = body.blocks[sw]["term"]
    if not t or t["k"] != "switch":
        return None
    arms = switch_arms(body, sw)
    tgt = arms.get(0, arms["otherwise"])
    return skip_trivial(body, tgt)


def origins_text(labs, n=8):
    return ", ".join(P.labels_str(labs, n))


def continue_only(cfg, start, region, header):
    """(ok, blocks): every path from `start` goes back to the loop header without leaving the
    iteration region; `blocks` are the blocks on the way (header excluded)."""
    outside = (set(range(cfg.n)) - set(region)) | {header}
    if start == header:
        return True, set()
    r = cfg.reach(start, avoid=outside)
    reaches = any(header in cfg.succ[x] for x in r)
    leaves = any((y not in region and y != header) for x in r for y in cfg.succ[x])
    dead_end = any(not cfg.succ[x] for x in r)
    return (reaches and not leaves and not dead_end), r


def base_local(body, op_or_place):
    """The local a reference operand ultimately points to, following `_a = &mut _b`, `_a = &(*_b)`
    and plain copies of references (single definitions only)."""
    pl = op_or_place.get("c") or op_or_place.get("m") if ("c" in op_or_place or "m" in op_or_place) else op_or_place
    if pl is None or "l" not in pl:
        return None
    l = pl["l"]
    if any(isinstance(e, dict) for e in pl["p"]):
        return l
    for _ in range(12):
        sd = body.single_def(l)
        if not sd or sd[0] != "stmt":
            return l
        rv = sd[3]["rv"]
        if rv["k"] in ("ref", "rawptr"):
            p2 = rv["place"]
        elif rv["k"] == "use" and ("c" in rv["op"] or "m" in rv["op"]):
            p2 = rv["op"].get("c") or rv["op"].get("m")
            # follow copies of references, and moves into compiler temporaries
            if not body.local_ty(p2["l"]).startswith("&") and body.locals[l].get("user"):
                return l
        else:
            return l
        if any(isinstance(e, dict) for e in p2["p"]):
            return l
        l = p2["l"]
    return l


def arm_only_err(ctx, body, br, vals):
    """The arm(s) of switch block `br` taken for `vals` lead only to `return Err` (no path to a normal
    return that avoids every Err-producing block): the guard alone decides the error, no further
    condition can rescue the path."""
    from rules.C12 import only_err_from
    arms = switch_arms(body, br)
    # `guards` reports `!x` as a test on x with the arms swapped: swap back to find the real arm
    e = switch_operand_expr(ctx, body, br)
    flips = 0
    while e[0] == "un" and e[1] == "Not" and body.blocks[br]["term"].get("op_ty", "bool") == "bool":
        e = e[2]
        flips += 1
    if flips % 2:
        vals = ({"otherwise"} if 0 in vals else set()) | ({0} if (set(vals) - {0}) else set())
    ok = True
    for v in vals:
        tgt = arms.get(v)
        if tgt is None:
            continue
        good, _ = only_err_from(ctx, body, tgt)
        ok = ok and good
    return ok


def copy_root(body, l, limit=12):
    """Follow `x = move y` / `x = copy y` chains of single-definition locals back to the local that is
    actually computed (a helper's return slot after virtual inlining, a renamed binding, ...)."""
    for _ in range(limit):
        sd = body.single_def(l)
        if not sd or sd[0] != "stmt" or sd[3]["rv"]["k"] != "use":
            return l
        p2 = op_place(sd[3]["rv"]["op"])
        if not p2 or p2["p"]:
            return l
        l = p2["l"]
    return l


def const_table(ctx, k, depth=4):
    """Rows of a constant array of tuples / values referenced by the constant operand `k`
    ({"uneval": def path, "promoted": n?}): each row a list of cells, a cell being a Python constant
    or ("variant", enum path, variant name). None when it cannot be read."""
    f = ctx.facts
    for _ in range(depth):
        if not isinstance(k, dict) or not k.get("uneval"):
            return None
        if k.get("promoted") is not None:
            cb = f.bodies.get("%s::{promoted#%d}" % (k["uneval"], k["promoted"]))
        else:
            cb = f.body(k["uneval"])
        if cb is None:
            return None
        # _0 = array{...} | _0 = &_1, _1 = const X | _0 = const X
        defs0 = [s for bi, j, s in cb.assigns() if s["lhs"]["l"] == 0 and not s["lhs"]["p"]]
        if len(defs0) != 1:
            return None
        rv = defs0[0]["rv"]
        if rv["k"] == "ref" and not rv["place"]["p"]:
            inner = [s for bi, j, s in cb.assigns() if s["lhs"]["l"] == rv["place"]["l"] and not s["lhs"]["p"]]
            if len(inner) != 1:
                return None
            rv = inner[0]["rv"]
        if rv["k"] == "use" and isinstance(rv["op"].get("k"), dict) and rv["op"]["k"].get("uneval"):
            k = rv["op"]["k"]
            continue
        if rv["k"] == "agg" and rv.get("agg") == "array":
            def cell(op):
                c = const_of(ctx, op)
                if c is not None:
                    return c
                pl = op_place(op)
                if pl is None or pl["p"]:
                    return None
                ds = [s for bi, j, s in cb.assigns() if s["lhs"]["l"] == pl["l"] and not s["lhs"]["p"]]
                if len(ds) != 1:
                    return None
                r2 = ds[0]["rv"]
                if r2["k"] == "agg" and r2.get("agg") == "adt":
                    return ("variant", r2["path"], r2.get("variant"))
                if r2["k"] == "agg" and r2.get("agg") == "tuple":
                    return [cell(o) for o in r2["ops"]]
                if r2["k"] == "use":
                    return cell(r2["op"])
                if r2["k"] == "ref" and all(e == "deref" for e in r2["place"]["p"]):
                    return cell({"c": {"l": r2["place"]["l"], "p": []}})
                return None
            rows = [cell(o) for o in rv["ops"]]
            return rows
        return None
    return None


def return_slots(body, limit=6):
    """Locals whose value is the function's result: _0 and every local that is only copied / moved
    into it (`_9 = Ok(..); _0 = move _9`)."""
    slots = {0}
    for _ in range(limit):
        grew = False
        for bi, j, s in body.assigns():
            if s["lhs"]["l"] in slots and not s["lhs"]["p"] and s["rv"]["k"] == "use":
                pl = op_place(s["rv"]["op"])
                if pl and not pl["p"] and pl["l"] not in slots:
                    slots.add(pl["l"])
                    grew = True
        if not grew:
            break
    return slots


def base_path(body, op_or_place, limit=16):
    """(root local, (field names…)) of the storage a reference operand designates, following
    `&mut x.f`, `&(*r).g`, plain copies / moves of references and the parameter copies left by virtual
    inlining (`self' = move tmp; tmp = &mut open_blocks`): `open_blocks.starts` is the same storage
    whether it is reached directly or through an inlined method's `self`."""
    pl = op_or_place.get("c") or op_or_place.get("m") if ("c" in op_or_place or "m" in op_or_place) else op_or_place
    if pl is None or "l" not in pl:
        return None, ()
    l = pl["l"]
    fields = tuple(e["f"] for e in pl["p"] if isinstance(e, dict) and "f" in e)
    for _ in range(limit):
        whole = [d for d in body.defs().get(l, []) if (d[0] == "call") or (d[0] == "stmt" and not d[3]["lhs"]["p"])]
        if len(whole) == 1 and whole[0][0] == "call" and callee_matches(whole[0][3], r"Deref>?::deref$|DerefMut>?::deref_mut$|Vec::<T, A>::(as_slice|as_mut_slice)$|AsRef<.*>>::as_ref$") and whole[0][3]["args"]:
            p2 = op_place(whole[0][3]["args"][0])
            if p2 is None:
                return l, fields
            fields = tuple(e["f"] for e in p2["p"] if isinstance(e, dict) and "f" in e) + fields
            l = p2["l"]
            continue
        if len(whole) != 1 or whole[0][0] != "stmt":
            return l, fields
        rv = whole[0][3]["rv"]
        if rv["k"] in ("ref", "rawptr"):
            p2 = rv["place"]
        elif rv["k"] == "use" and op_place(rv["op"]) is not None:
            p2 = op_place(rv["op"])
            if not body.local_ty(p2["l"]).startswith("&") and not body.local_ty(l).startswith("&") and body.locals[l].get("user"):
                return l, fields
        else:
            return l, fields
        fields = tuple(e["f"] for e in p2["p"] if isinstance(e, dict) and "f" in e) + fields
        l = p2["l"]
    return l, fields


def all_places(body):
    """Every place mentioned in the statements and terminators of a body: (bb, span, place)."""
    def ops_of(rv):
        k = rv["k"]
        if k in ("use", "cast"):
            yield rv.get("op")
        elif k == "un":
            yield rv.get("a")
        elif k == "bin":
            yield rv["a"]
            yield rv["b"]
        elif k == "agg":
            for o in rv["ops"]:
                yield o
    for bi, j, s in body.stmts():
        if s["k"] != "assign":
            continue
        yield bi, s["span"], s["lhs"]
        rv = s["rv"]
        if rv["k"] in ("ref", "rawptr", "discr", "len") and rv.get("place"):
            yield bi, s["span"], rv["place"]
        for o in ops_of(rv):
            if isinstance(o, dict):
                pl = o.get("c") or o.get("m")
                if pl:
                    yield bi, s["span"], pl
    for bi, t in body.terms():
        sp = t.get("span") or body.span
        if t["k"] == "call":
            for o in t["args"]:
                pl = o.get("c") or o.get("m")
                if pl:
                    yield bi, sp, pl
            yield bi, sp, t["dest"]
        elif t["k"] == "switch":
            o = t.get("op") or t.get("discr")
            if isinstance(o, dict):
                pl = o.get("c") or o.get("m")
                if pl:
                    yield bi, sp, pl
