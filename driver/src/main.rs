// bwfacts — rustc_private driver that dumps the pre-borrowck MIR of the blockwatch crates as JSON
// facts for the /verif engine. No Cargo dependencies. See /verif/DESIGN.md §2 (E1).
#![feature(rustc_private)]
extern crate rustc_abi;
extern crate rustc_driver;
extern crate rustc_hir;
extern crate rustc_interface;
extern crate rustc_middle;
extern crate rustc_session;
extern crate rustc_span;

use rustc_driver::Compilation;
use rustc_hir::def::DefKind;
use rustc_hir::def_id::{DefId, LocalDefId};
use rustc_middle::mir::{
    self, AggregateKind, AssertKind, BasicBlock, Body, CastKind, Const, Operand, Place,
    ProjectionElem, Rvalue, StatementKind, TerminatorKind,
};
use rustc_middle::ty::print::{with_crate_prefix, with_no_trimmed_paths};
use rustc_middle::ty::{self, Instance, Ty, TyCtxt, TypingEnv};
use rustc_middle::util::Providers;
use rustc_span::Span;
use std::collections::HashSet;
use std::sync::Mutex;

// ------------------------------------------------------------------------------------------------
// Minimal JSON value + writer.
// ------------------------------------------------------------------------------------------------
#[derive(Clone)]
enum J {
    Null,
    Bool(bool),
    Num(i128),
    Str(String),
    Arr(Vec<J>),
    Obj(Vec<(&'static str, J)>),
}

fn s<T: Into<String>>(x: T) -> J {
    J::Str(x.into())
}
fn n<T: TryInto<i128>>(x: T) -> J {
    J::Num(x.try_into().ok().unwrap_or(-1))
}

fn write_json(j: &J, out: &mut String) {
    match j {
        J::Null => out.push_str("null"),
        J::Bool(b) => out.push_str(if *b { "true" } else { "false" }),
        J::Num(v) => out.push_str(&v.to_string()),
        J::Str(st) => {
            out.push('"');
            for c in st.chars() {
                match c {
                    '"' => out.push_str("\\\""),
                    '\\' => out.push_str("\\\\"),
                    '\n' => out.push_str("\\n"),
                    '\r' => out.push_str("\\r"),
                    '\t' => out.push_str("\\t"),
                    c if (c as u32) < 0x20 => out.push_str(&format!("\\u{:04x}", c as u32)),
                    c => out.push(c),
                }
            }
            out.push('"');
        }
        J::Arr(v) => {
            out.push('[');
            for (i, x) in v.iter().enumerate() {
                if i > 0 {
                    out.push(',');
                }
                write_json(x, out);
            }
            out.push(']');
        }
        J::Obj(v) => {
            out.push('{');
            for (i, (k, x)) in v.iter().enumerate() {
                if i > 0 {
                    out.push(',');
                }
                out.push('"');
                out.push_str(k);
                out.push_str("\":");
                write_json(x, out);
            }
            out.push('}');
        }
    }
}

// ------------------------------------------------------------------------------------------------
// Global state (bodies are dumped from inside the mir_borrowck override).
// ------------------------------------------------------------------------------------------------
static BODIES: Mutex<Vec<String>> = Mutex::new(Vec::new());
static DUMPED: Mutex<Option<HashSet<u32>>> = Mutex::new(None);
type BorrowckFn = for<'tcx> fn(
    TyCtxt<'tcx>,
    LocalDefId,
) -> rustc_middle::queries::mir_borrowck::ProvidedValue<'tcx>;
static ORIG: Mutex<Option<BorrowckFn>> = Mutex::new(None);
static LOCAL_CONSTS: Mutex<Vec<u32>> = Mutex::new(Vec::new());

fn is_target_crate(tcx: TyCtxt<'_>) -> bool {
    let name = tcx.crate_name(rustc_span::def_id::LOCAL_CRATE).to_string();
    let want = std::env::var("BWFACTS_CRATES").unwrap_or_else(|_| "blockwatch".into());
    want.split(',').any(|w| w == name)
}

/// `with_crate_prefix!` prints the local crate as `crate::`; make it the crate's own name (the
/// binary's local items get `bwbin::` so that they cannot collide with the library's).
fn fix_crate(tcx: TyCtxt<'_>, st: String) -> String {
    if !st.contains("crate::") {
        return st;
    }
    let is_bin = tcx
        .crate_types()
        .iter()
        .any(|t| matches!(t, rustc_session::config::CrateType::Executable));
    let name = if is_bin {
        "bwbin".to_string()
    } else {
        tcx.crate_name(rustc_span::def_id::LOCAL_CRATE).to_string()
    };
    let mut out = String::with_capacity(st.len() + 16);
    let bytes = st.as_bytes();
    let mut i = 0;
    while i < bytes.len() {
        if st[i..].starts_with("crate::")
            && (i == 0 || !(bytes[i - 1].is_ascii_alphanumeric() || bytes[i - 1] == b'_'))
        {
            out.push_str(&name);
            out.push_str("::");
            i += 7;
        } else {
            let ch = st[i..].chars().next().unwrap();
            out.push(ch);
            i += ch.len_utf8();
        }
    }
    out
}

fn path_of(tcx: TyCtxt<'_>, did: DefId) -> String {
    fix_crate(tcx, with_crate_prefix!(with_no_trimmed_paths!(tcx.def_path_str(did))))
}

fn path_with_args<'tcx>(tcx: TyCtxt<'tcx>, did: DefId, args: ty::GenericArgsRef<'tcx>) -> String {
    fix_crate(tcx, with_crate_prefix!(with_no_trimmed_paths!(tcx.def_path_str_with_args(did, args))))
}

fn ty_str<'tcx>(tcx: TyCtxt<'tcx>, t: Ty<'tcx>) -> String {
    fix_crate(tcx, ty_str_raw(t))
}

fn ty_str_raw<'tcx>(t: Ty<'tcx>) -> String {
    with_crate_prefix!(with_no_trimmed_paths!(format!("{}", t)))
}

/// The ADT (or closure / coroutine) definition behind a type, after peeling references, raw
/// pointers and `Box`.
fn ty_adt<'tcx>(tcx: TyCtxt<'tcx>, t: Ty<'tcx>) -> J {
    let mut t = t;
    loop {
        match t.kind() {
            ty::Ref(_, inner, _) => t = *inner,
            ty::RawPtr(inner, _) => t = *inner,
            ty::Adt(def, _) => return s(path_of(tcx, def.did())),
            ty::Closure(did, _) | ty::Coroutine(did, _) | ty::CoroutineClosure(did, _) => {
                return s(path_of(tcx, *did));
            }
            _ => return J::Null,
        }
    }
}

fn span_json(tcx: TyCtxt<'_>, sp: Span) -> J {
    let sm = tcx.sess.source_map();
    let mut fields: Vec<(&'static str, J)> = Vec::new();
    let call = sp.source_callsite();
    let lo = sm.lookup_char_pos(call.lo());
    let hi = sm.lookup_char_pos(call.hi());
    let file = match &lo.file.name {
        rustc_span::FileName::Real(r) => r
            .local_path()
            .map(|p| p.display().to_string())
            .unwrap_or_else(|| format!("{:?}", lo.file.name)),
        other => format!("{:?}", other),
    };
    fields.push(("file", s(file)));
    fields.push(("line", n(lo.line)));
    fields.push(("col", n(lo.col.0 + 1)));
    fields.push(("eline", n(hi.line)));
    fields.push(("ecol", n(hi.col.0 + 1)));
    if sp.from_expansion() {
        let ed = sp.ctxt().outer_expn_data();
        let name = match ed.kind {
            rustc_span::ExpnKind::Macro(_, sym) => format!("{}", sym),
            rustc_span::ExpnKind::Desugaring(d) => format!("desugar:{:?}", d),
            rustc_span::ExpnKind::AstPass(p) => format!("astpass:{:?}", p),
            rustc_span::ExpnKind::Root => "root".to_string(),
        };
        fields.push(("exp", s(name)));
        // Outermost macro (the one written in user code).
        let mut cur = sp;
        let mut outer = String::new();
        while cur.from_expansion() {
            let d = cur.ctxt().outer_expn_data();
            if let rustc_span::ExpnKind::Macro(_, sym) = d.kind {
                outer = format!("{}", sym);
            } else if let rustc_span::ExpnKind::Desugaring(dk) = d.kind {
                outer = format!("desugar:{:?}", dk);
            }
            cur = d.call_site;
        }
        fields.push(("exp_outer", s(outer)));
    }
    J::Obj(fields)
}

struct Cx<'a, 'tcx> {
    tcx: TyCtxt<'tcx>,
    body: &'a Body<'tcx>,
    tenv: TypingEnv<'tcx>,
}

impl<'a, 'tcx> Cx<'a, 'tcx> {
    fn place(&self, p: &Place<'tcx>) -> J {
        let tcx = self.tcx;
        let mut projs = Vec::new();
        let mut pty = mir::PlaceTy::from_ty(self.body.local_decls[p.local].ty);
        for elem in p.projection.iter() {
            let j = match elem {
                ProjectionElem::Deref => s("deref"),
                ProjectionElem::Field(fidx, fty) => {
                    let mut name = format!("{}", fidx.index());
                    let mut owner = J::Null;
                    match pty.ty.kind() {
                        ty::Adt(def, _) => {
                            let vidx = pty.variant_index.unwrap_or(rustc_abi::FIRST_VARIANT);
                            if def.is_enum() || def.is_struct() || def.is_union() {
                                if let Some(v) = def.variants().get(vidx) {
                                    if let Some(f) = v.fields.get(fidx) {
                                        name = f.name.to_string();
                                    }
                                    if def.is_enum() {
                                        owner = s(format!(
                                            "{}::{}",
                                            path_of(tcx, def.did()),
                                            v.name
                                        ));
                                    } else {
                                        owner = s(path_of(tcx, def.did()));
                                    }
                                }
                            }
                        }
                        ty::Closure(did, _) | ty::Coroutine(did, _) | ty::CoroutineClosure(did, _) => {
                            owner = s(path_of(tcx, *did));
                            if let Some(ldid) = did.as_local() {
                                let caps = tcx.closure_captures(ldid);
                                if let Some(c) = caps.get(fidx.index()) {
                                    name = format!("upvar:{}", c.var_ident.name);
                                }
                            }
                        }
                        ty::Tuple(_) => {
                            owner = s("tuple");
                        }
                        _ => {}
                    }
                    J::Obj(vec![
                        ("f", s(name)),
                        ("i", n(fidx.index())),
                        ("adt", owner),
                        ("ty", s(ty_str(tcx, fty))),
                    ])
                }
                ProjectionElem::Index(l) => J::Obj(vec![("idx", n(l.index()))]),
                ProjectionElem::ConstantIndex { offset, min_length, from_end } => J::Obj(vec![
                    ("cidx", n(offset)),
                    ("min", n(min_length)),
                    ("from_end", J::Bool(from_end)),
                ]),
                ProjectionElem::Subslice { from, to, from_end } => J::Obj(vec![
                    ("sub_from", n(from)),
                    ("sub_to", n(to)),
                    ("from_end", J::Bool(from_end)),
                ]),
                ProjectionElem::Downcast(name, vidx) => J::Obj(vec![
                    ("dc", name.map(|x| s(x.to_string())).unwrap_or(J::Null)),
                    ("vi", n(vidx.index())),
                ]),
                ProjectionElem::OpaqueCast(_) => s("opaque"),
                ProjectionElem::UnwrapUnsafeBinder(_) => s("unwrap_binder"),
            };
            projs.push(j);
            pty = pty.projection_ty(tcx, elem);
        }
        J::Obj(vec![("l", n(p.local.index())), ("p", J::Arr(projs))])
    }

    fn konst(&self, c: &mir::ConstOperand<'tcx>) -> J {
        let tcx = self.tcx;
        let cty = c.const_.ty();
        let mut fields: Vec<(&'static str, J)> = vec![("ty", s(ty_str(tcx, cty)))];
        match cty.kind() {
            ty::FnDef(did, args) => {
                fields.push(("fn", s(path_of(tcx, *did))));
                fields.push(("fn_args", s(path_with_args(tcx, *did, args))));
                if let Some(first) = args.types().next() {
                    fields.push(("fn_self", s(ty_str(tcx, first))));
                    fields.push(("fn_self_adt", ty_adt(tcx, first)));
                }
            }
            ty::Closure(did, _) => {
                fields.push(("closure", s(path_of(tcx, *did))));
            }
            _ => {}
        }
        // Display text of the constant (string literals print as their text).
        let disp = fix_crate(tcx, with_crate_prefix!(with_no_trimmed_paths!(format!("{}", c.const_))));
        fields.push(("text", s(disp)));
        // Evaluated scalar value where there is one.
        match c.const_ {
            Const::Unevaluated(uv, _) => {
                fields.push(("uneval", s(path_of(tcx, uv.def))));
                // `<T as Trait>::CONST`: the Self type of the item's arguments (a type parameter inside generic code)
                if let Some(t0) = uv.args.types().next() {
                    fields.push(("uneval_self", s(ty_str(tcx, t0))));
                }
                if uv.promoted.is_some() {
                    fields.push(("promoted", n(uv.promoted.unwrap().index())));
                }
            }
            _ => {}
        }
        let mut may_eval = !matches!(cty.kind(), ty::FnDef(..));
        if let Const::Unevaluated(uv, _) = c.const_ {
            // Evaluating a promoted or a local constant from inside the borrowck override can
            // re-enter borrowck of the same body (query cycle): defer local ones to
            // after_analysis (table `consts`), never evaluate promoteds (their bodies are dumped).
            if uv.promoted.is_some() {
                may_eval = false;
            } else if uv.def.is_local() {
                may_eval = false;
                LOCAL_CONSTS.lock().unwrap().push(uv.def.expect_local().local_def_index.as_u32());
            }
        }
        if may_eval {
            if let Ok(val) = c.const_.eval(tcx, self.tenv, c.span) {
                match val {
                    mir::ConstValue::Scalar(sc) => {
                        if let Ok(si) = sc.try_to_scalar_int() {
                            let bits = si.to_bits_unchecked();
                            fields.push(("int", J::Num(bits as i128)));
                            if cty.is_signed() {
                                let size = si.size();
                                fields.push(("sint", J::Num(si.to_int(size))));
                            }
                        } else if let mir::interpret::Scalar::Ptr(ptr, _) = sc {
                            // a reference to a `static` item: name the item (its initialiser is a body of its own)
                            if let Some(mir::interpret::GlobalAlloc::Static(sdid)) =
                                tcx.try_get_global_alloc(ptr.provenance.alloc_id())
                            {
                                fields.push(("static", s(path_of(tcx, sdid))));
                            }
                        }
                    }
                    mir::ConstValue::ZeroSized => {
                        fields.push(("zst", J::Bool(true)));
                    }
                    mir::ConstValue::Slice { alloc_id, meta } => {
                        // &str / &[u8] literal: read the bytes.
                        let alloc = tcx.global_alloc(alloc_id).unwrap_memory();
                        let a = alloc.inner();
                        let len = meta as usize;
                        if len <= a.len() {
                            let bytes =
                                a.inspect_with_uninit_and_ptr_outside_interpreter(0..len);
                            fields.push(("str", s(String::from_utf8_lossy(bytes).to_string())));
                        }
                    }
                    _ => {}
                }
            }
        }
        J::Obj(fields)
    }

    fn operand(&self, o: &Operand<'tcx>) -> J {
        match o {
            Operand::Copy(p) => J::Obj(vec![("c", self.place(p))]),
            Operand::Move(p) => J::Obj(vec![("m", self.place(p))]),
            Operand::Constant(c) => J::Obj(vec![("k", self.konst(c))]),
            #[allow(unreachable_patterns)]
            _ => J::Obj(vec![("other", s(format!("{:?}", o)))]),
        }
    }

    fn rvalue(&self, rv: &Rvalue<'tcx>) -> J {
        let tcx = self.tcx;
        match rv {
            Rvalue::Use(op, _) => J::Obj(vec![("k", s("use")), ("op", self.operand(op))]),
            Rvalue::Repeat(op, _) => J::Obj(vec![("k", s("repeat")), ("op", self.operand(op))]),
            Rvalue::Ref(_, bk, p) => J::Obj(vec![
                ("k", s("ref")),
                ("mut", J::Bool(matches!(bk, mir::BorrowKind::Mut { .. }))),
                ("fake", J::Bool(matches!(bk, mir::BorrowKind::Fake(_)))),
                ("place", self.place(p)),
            ]),
            Rvalue::ThreadLocalRef(did) => {
                J::Obj(vec![("k", s("tlref")), ("def", s(path_of(tcx, *did)))])
            }
            Rvalue::RawPtr(_, p) => J::Obj(vec![("k", s("rawptr")), ("place", self.place(p))]),
            Rvalue::Cast(kind, op, t) => {
                let kname = match kind {
                    CastKind::PointerCoercion(pc, _) => format!("PointerCoercion({:?})", pc),
                    other => format!("{:?}", other),
                };
                let mut f = vec![
                    ("k", s("cast")),
                    ("kind", s(kname)),
                    ("op", self.operand(op)),
                    ("ty", s(ty_str(tcx, *t))),
                ];
                let from_ty = op.ty(self.body, tcx);
                f.push(("from_ty", s(ty_str(tcx, from_ty))));
                f.push(("from_adt", ty_adt(tcx, from_ty)));
                // Box<T> -> Box<dyn Tr>: record T.
                if let ty::Adt(def, args) = from_ty.kind() {
                    if def.is_box() {
                        if let Some(inner) = args.types().next() {
                            f.push(("from_box_inner", s(ty_str(tcx, inner))));
                            f.push(("from_box_adt", ty_adt(tcx, inner)));
                        }
                    }
                }
                J::Obj(f)
            }
            Rvalue::BinaryOp(op, ab) => J::Obj(vec![
                ("k", s("bin")),
                ("op", s(format!("{:?}", op))),
                ("a", self.operand(&ab.0)),
                ("b", self.operand(&ab.1)),
                ("a_ty", s(ty_str(tcx, ab.0.ty(self.body, tcx)))),
            ]),
            Rvalue::UnaryOp(op, a) => J::Obj(vec![
                ("k", s("un")),
                ("op", s(format!("{:?}", op))),
                ("a", self.operand(a)),
            ]),
            Rvalue::Discriminant(p) => {
                let pt = p.ty(self.body, tcx).ty;
                J::Obj(vec![
                    ("k", s("discr")),
                    ("place", self.place(p)),
                    ("adt", ty_adt(tcx, pt)),
                    ("ty", s(ty_str(tcx, pt))),
                ])
            }
            Rvalue::Aggregate(kind, ops) => {
                let mut f: Vec<(&'static str, J)> = vec![("k", s("agg"))];
                match &**kind {
                    AggregateKind::Array(_) => f.push(("agg", s("array"))),
                    AggregateKind::Tuple => f.push(("agg", s("tuple"))),
                    AggregateKind::Adt(did, vidx, _, _, _) => {
                        f.push(("agg", s("adt")));
                        f.push(("path", s(path_of(tcx, *did))));
                        let def = tcx.adt_def(*did);
                        let v = def.variant(*vidx);
                        f.push(("variant", s(v.name.to_string())));
                        f.push(("vi", n(vidx.index())));
                        f.push((
                            "fields",
                            J::Arr(v.fields.iter().map(|fd| s(fd.name.to_string())).collect()),
                        ));
                    }
                    AggregateKind::Closure(did, _) => {
                        f.push(("agg", s("closure")));
                        f.push(("path", s(path_of(tcx, *did))));
                        if let Some(ldid) = did.as_local() {
                            let caps = tcx.closure_captures(ldid);
                            f.push((
                                "fields",
                                J::Arr(
                                    caps.iter().map(|c| s(c.var_ident.name.to_string())).collect(),
                                ),
                            ));
                        }
                    }
                    AggregateKind::Coroutine(did, _) => {
                        f.push(("agg", s("coroutine")));
                        f.push(("path", s(path_of(tcx, *did))));
                        if let Some(ldid) = did.as_local() {
                            let caps = tcx.closure_captures(ldid);
                            f.push((
                                "fields",
                                J::Arr(
                                    caps.iter().map(|c| s(c.var_ident.name.to_string())).collect(),
                                ),
                            ));
                        }
                    }
                    AggregateKind::CoroutineClosure(did, _) => {
                        f.push(("agg", s("coroutine_closure")));
                        f.push(("path", s(path_of(tcx, *did))));
                    }
                    AggregateKind::RawPtr(..) => f.push(("agg", s("rawptr"))),
                }
                f.push(("ops", J::Arr(ops.iter().map(|o| self.operand(o)).collect())));
                J::Obj(f)
            }
            Rvalue::CopyForDeref(p) => {
                J::Obj(vec![("k", s("use")), ("op", J::Obj(vec![("c", self.place(p))]))])
            }
            Rvalue::WrapUnsafeBinder(op, _) => {
                J::Obj(vec![("k", s("use")), ("op", self.operand(op))])
            }
            #[allow(unreachable_patterns)]
            other => J::Obj(vec![("k", s("other")), ("text", s(format!("{:?}", other)))]),
        }
    }

    fn bb(&self, b: BasicBlock) -> J {
        n(b.index())
    }

    fn terminator(&self, t: &mir::Terminator<'tcx>) -> J {
        let tcx = self.tcx;
        let sp = span_json(tcx, t.source_info.span);
        match &t.kind {
            TerminatorKind::Goto { target } => {
                J::Obj(vec![("k", s("goto")), ("t", self.bb(*target)), ("span", sp)])
            }
            TerminatorKind::SwitchInt { discr, targets } => {
                let mut vals = Vec::new();
                let mut tgts = Vec::new();
                for (v, t) in targets.iter() {
                    vals.push(J::Num(v as i128));
                    tgts.push(self.bb(t));
                }
                J::Obj(vec![
                    ("k", s("switch")),
                    ("op", self.operand(discr)),
                    ("op_ty", s(ty_str(tcx, discr.ty(self.body, tcx)))),
                    ("vals", J::Arr(vals)),
                    ("targets", J::Arr(tgts)),
                    ("otherwise", self.bb(targets.otherwise())),
                    ("span", sp),
                ])
            }
            TerminatorKind::UnwindResume => J::Obj(vec![("k", s("resume"))]),
            TerminatorKind::UnwindTerminate(_) => J::Obj(vec![("k", s("terminate"))]),
            TerminatorKind::Return => J::Obj(vec![("k", s("return")), ("span", sp)]),
            TerminatorKind::Unreachable => J::Obj(vec![("k", s("unreachable")), ("span", sp)]),
            TerminatorKind::Drop { place, target, .. } => J::Obj(vec![
                ("k", s("drop")),
                ("place", self.place(place)),
                ("t", self.bb(*target)),
            ]),
            TerminatorKind::Call { func, args, destination, target, fn_span, .. } => {
                let mut f: Vec<(&'static str, J)> = vec![("k", s("call"))];
                let fty = func.ty(self.body, tcx);
                match fty.kind() {
                    ty::FnDef(cd, ga) => {
                        f.push(("def", s(path_of(tcx, *cd))));
                        f.push(("path", s(path_with_args(tcx, *cd, ga))));
                        f.push(("name", s(tcx.item_name(*cd).to_string())));
                        if let Some(tr) = tcx.trait_of_assoc(*cd) {
                            f.push(("trait", s(path_of(tcx, tr))));
                        }
                        if let Some(imp) = tcx.impl_of_assoc(*cd) {
                            let self_ty = tcx.type_of(imp).instantiate_identity().skip_norm_wip();
                            f.push(("impl_self", s(ty_str(tcx, self_ty))));
                            f.push(("impl_self_adt", ty_adt(tcx, self_ty)));
                        }
                        if let Some(first) = ga.types().next() {
                            f.push(("self_ty", s(ty_str(tcx, first))));
                            f.push(("self_adt", ty_adt(tcx, first)));
                            if matches!(first.kind(), ty::Dynamic(..)) {
                                f.push(("dyn", J::Bool(true)));
                            }
                        }
                        let targs: Vec<J> = ga.types().map(|t| s(ty_str(tcx, t))).collect();
                        f.push(("targs", J::Arr(targs)));
                        if let Ok(Some(inst)) = Instance::try_resolve(tcx, self.tenv, *cd, ga) {
                            f.push(("res", s(path_of(tcx, inst.def_id()))));
                            if let ty::InstanceKind::Virtual(..) = inst.def {
                                f.push(("virtual", J::Bool(true)));
                            }
                        }
                    }
                    _ => {
                        f.push(("indirect", self.operand(func)));
                        f.push(("indirect_ty", s(ty_str(tcx, fty))));
                    }
                }
                f.push((
                    "args",
                    J::Arr(args.iter().map(|a| self.operand(&a.node)).collect()),
                ));
                f.push((
                    "arg_tys",
                    J::Arr(
                        args.iter()
                            .map(|a| s(ty_str(tcx, a.node.ty(self.body, tcx))))
                            .collect(),
                    ),
                ));
                f.push(("dest", self.place(destination)));
                f.push(("dest_ty", s(ty_str(tcx, destination.ty(self.body, tcx).ty))));
                f.push(("t", target.map(|t| self.bb(t)).unwrap_or(J::Null)));
                f.push(("span", sp));
                f.push(("fn_span", span_json(tcx, *fn_span)));
                J::Obj(f)
            }
            TerminatorKind::TailCall { .. } => J::Obj(vec![("k", s("tailcall")), ("span", sp)]),
            TerminatorKind::Assert { cond, expected, msg, target, .. } => {
                let (kind, detail) = match &**msg {
                    AssertKind::BoundsCheck { .. } => ("bounds", String::new()),
                    AssertKind::Overflow(op, _, _) => ("overflow", format!("{:?}", op)),
                    AssertKind::OverflowNeg(_) => ("overflow_neg", String::new()),
                    AssertKind::DivisionByZero(_) => ("div_zero", String::new()),
                    AssertKind::RemainderByZero(_) => ("rem_zero", String::new()),
                    AssertKind::ResumedAfterReturn(_) => ("resumed_after_return", String::new()),
                    AssertKind::ResumedAfterPanic(_) => ("resumed_after_panic", String::new()),
                    AssertKind::ResumedAfterDrop(_) => ("resumed_after_drop", String::new()),
                    AssertKind::MisalignedPointerDereference { .. } => ("misaligned", String::new()),
                    AssertKind::NullPointerDereference => ("nullptr", String::new()),
                    AssertKind::InvalidEnumConstruction(_) => ("invalid_enum", String::new()),
                };
                let mut f = vec![
                    ("k", s("assert")),
                    ("cond", self.operand(cond)),
                    ("expected", J::Bool(*expected)),
                    ("msg", s(kind)),
                    ("detail", s(detail)),
                    ("t", self.bb(*target)),
                    ("span", sp),
                ];
                if let AssertKind::Overflow(_, a, b) = &**msg {
                    f.push(("a", self.operand(a)));
                    f.push(("b", self.operand(b)));
                }
                if let AssertKind::BoundsCheck { len, index } = &**msg {
                    f.push(("a", self.operand(len)));
                    f.push(("b", self.operand(index)));
                }
                J::Obj(f)
            }
            TerminatorKind::Yield { value, resume, resume_arg, drop } => J::Obj(vec![
                ("k", s("yield")),
                ("val", self.operand(value)),
                ("t", self.bb(*resume)),
                ("resume_arg", self.place(resume_arg)),
                ("drop", drop.map(|d| self.bb(d)).unwrap_or(J::Null)),
                ("span", sp),
            ]),
            TerminatorKind::CoroutineDrop => J::Obj(vec![("k", s("coroutine_drop"))]),
            TerminatorKind::FalseEdge { real_target, imaginary_target } => J::Obj(vec![
                ("k", s("falseedge")),
                ("t", self.bb(*real_target)),
                ("imag", self.bb(*imaginary_target)),
            ]),
            TerminatorKind::FalseUnwind { real_target, .. } => {
                J::Obj(vec![("k", s("falseunwind")), ("t", self.bb(*real_target))])
            }
            TerminatorKind::InlineAsm { .. } => J::Obj(vec![("k", s("asm")), ("span", sp)]),
        }
    }
}

fn dump_body<'tcx>(
    tcx: TyCtxt<'tcx>,
    ldid: LocalDefId,
    body: &Body<'tcx>,
    promoted_idx: Option<usize>,
) -> String {
    let did = ldid.to_def_id();
    let kind = tcx.def_kind(did);
    let tenv = TypingEnv::post_analysis(tcx, did);
    let cx = Cx { tcx, body, tenv };
    let mut id = path_of(tcx, did);
    if let Some(i) = promoted_idx {
        id = format!("{}::{{promoted#{}}}", id, i);
    }
    let mut f: Vec<(&'static str, J)> = Vec::new();
    f.push(("id", s(id)));
    f.push(("def", s(path_of(tcx, did))));
    f.push(("kind", s(format!("{:?}", kind).split(|c| c == ' ' || c == '{' || c == '(').next().unwrap_or("").to_string())));
    f.push(("promoted", promoted_idx.map(|i| n(i)).unwrap_or(J::Null)));
    let parent = tcx.typeck_root_def_id(did);
    f.push((
        "root",
        if parent != did { s(path_of(tcx, parent)) } else { J::Null },
    ));
    let direct_parent = if matches!(kind, DefKind::Closure | DefKind::InlineConst | DefKind::SyntheticCoroutineBody) {
        s(path_of(tcx, tcx.parent(did)))
    } else {
        J::Null
    };
    f.push(("parent", direct_parent));
    f.push(("span", span_json(tcx, body.span)));
    f.push(("argc", n(body.arg_count)));
    f.push(("coroutine", J::Bool(body.coroutine.is_some())));
    // impl block info
    if matches!(kind, DefKind::AssocFn | DefKind::AssocConst { .. }) {
        if let Some(imp) = tcx.impl_of_assoc(did) {
            let self_ty = tcx.type_of(imp).instantiate_identity().skip_norm_wip();
            f.push(("impl_self", s(ty_str(tcx, self_ty))));
            f.push(("impl_self_adt", ty_adt(tcx, self_ty)));
            if let Some(tr) = tcx.impl_opt_trait_ref(imp) {
                let tr = tr.instantiate_identity().skip_norm_wip();
                f.push(("impl_trait", s(path_of(tcx, tr.def_id))));
            }
        }
    }
    if matches!(kind, DefKind::Fn | DefKind::AssocFn) {
        f.push(("name", s(tcx.item_name(did).to_string())));
        f.push(("vis_pub", J::Bool(tcx.visibility(did).is_public())));
        // the item's type parameters (parents' first), in the order in which a call's type arguments are listed
        let ids = ty::GenericArgs::identity_for_item(tcx, did);
        f.push(("generics", J::Arr(ids.types().map(|t| s(ty_str(tcx, t))).collect())));
    }
    // locals
    let mut names: Vec<Option<String>> = vec![None; body.local_decls.len()];
    let mut debug_extra: Vec<J> = Vec::new();
    for v in &body.var_debug_info {
        match &v.value {
            mir::VarDebugInfoContents::Place(p) => {
                if p.projection.is_empty() {
                    names[p.local.index()] = Some(v.name.to_string());
                } else {
                    debug_extra.push(J::Obj(vec![
                        ("name", s(v.name.to_string())),
                        ("place", cx.place(p)),
                    ]));
                }
            }
            _ => {}
        }
    }
    let mut locals = Vec::new();
    for (l, d) in body.local_decls.iter_enumerated() {
        locals.push(J::Obj(vec![
            ("ty", s(ty_str(tcx, d.ty))),
            ("adt", ty_adt(tcx, d.ty)),
            (
                "name",
                names[l.index()].clone().map(|x| s(x)).unwrap_or(J::Null),
            ),
            (
                "user",
                J::Bool(matches!(d.local_info, mir::ClearCrossCrate::Set(_)) && d.is_user_variable()),
            ),
            ("mut", J::Bool(d.mutability.is_mut())),
        ]));
    }
    f.push(("locals", J::Arr(locals)));
    f.push(("debug_extra", J::Arr(debug_extra)));
    // blocks
    let mut blocks = Vec::new();
    for (_bb, data) in body.basic_blocks.iter_enumerated() {
        let mut stmts = Vec::new();
        for st in &data.statements {
            match &st.kind {
                StatementKind::Assign(b) => {
                    let (lhs, rv) = &**b;
                    stmts.push(J::Obj(vec![
                        ("k", s("assign")),
                        ("lhs", cx.place(lhs)),
                        ("rv", cx.rvalue(rv)),
                        ("span", span_json(tcx, st.source_info.span)),
                    ]));
                }
                StatementKind::SetDiscriminant { place, variant_index } => {
                    stmts.push(J::Obj(vec![
                        ("k", s("setdiscr")),
                        ("lhs", cx.place(place)),
                        ("vi", n(variant_index.index())),
                    ]));
                }
                StatementKind::StorageDead(l) => {
                    stmts.push(J::Obj(vec![("k", s("dead")), ("l", n(l.index()))]));
                }
                StatementKind::StorageLive(l) => {
                    stmts.push(J::Obj(vec![("k", s("live")), ("l", n(l.index()))]));
                }
                StatementKind::Intrinsic(i) => {
                    stmts.push(J::Obj(vec![("k", s("intrinsic")), ("text", s(format!("{:?}", i)))]));
                }
                _ => {}
            }
        }
        let term = data
            .terminator
            .as_ref()
            .map(|t| cx.terminator(t))
            .unwrap_or(J::Null);
        blocks.push(J::Obj(vec![
            ("cleanup", J::Bool(data.is_cleanup)),
            ("stmts", J::Arr(stmts)),
            ("term", term),
        ]));
    }
    f.push(("blocks", J::Arr(blocks)));
    let mut out = String::new();
    write_json(&J::Obj(f), &mut out);
    out
}

fn dump_def<'tcx>(tcx: TyCtxt<'tcx>, d: LocalDefId, buf: &mut Vec<String>) {
    let (body, promoted) = tcx.mir_promoted(d);
    if body.is_stolen() || promoted.is_stolen() {
        return;
    }
    {
        let mut g = DUMPED.lock().unwrap();
        let set = g.get_or_insert_with(HashSet::new);
        if !set.insert(d.local_def_index.as_u32()) {
            return;
        }
    }
    let b = body.borrow();
    buf.push(dump_body(tcx, d, &b, None));
    let p = promoted.borrow();
    for (i, pb) in p.iter_enumerated() {
        buf.push(dump_body(tcx, d, pb, Some(i.index())));
    }
}

fn my_borrowck<'tcx>(
    tcx: TyCtxt<'tcx>,
    def: LocalDefId,
) -> rustc_middle::queries::mir_borrowck::ProvidedValue<'tcx> {
    if is_target_crate(tcx) {
        let mut buf = Vec::new();
        let mut all = vec![def];
        for nb in tcx.nested_bodies_within(def) {
            all.push(nb);
        }
        for d in all {
            dump_def(tcx, d, &mut buf);
        }
        // No tcx query while the lock is held.
        BODIES.lock().unwrap().extend(buf);
    }
    let orig = { ORIG.lock().unwrap().unwrap() };
    orig(tcx, def)
}

struct Cb;
impl rustc_driver::Callbacks for Cb {
    fn config(&mut self, config: &mut rustc_interface::interface::Config) {
        config.override_queries = Some(|_sess, providers: &mut Providers| {
            *ORIG.lock().unwrap() = Some(providers.queries.mir_borrowck);
            providers.queries.mir_borrowck = my_borrowck;
        });
    }

    fn after_analysis<'tcx>(
        &mut self,
        _c: &rustc_interface::interface::Compiler,
        tcx: TyCtxt<'tcx>,
    ) -> Compilation {
        if !is_target_crate(tcx) {
            return Compilation::Continue;
        }
        let crate_name = tcx.crate_name(rustc_span::def_id::LOCAL_CRATE).to_string();
        let is_bin = tcx
            .crate_types()
            .iter()
            .any(|t| matches!(t, rustc_session::config::CrateType::Executable));
        // Bodies whose pre-borrowck MIR was stolen before we saw it (consts evaluated early).
        let mut late: Vec<String> = Vec::new();
        let dumped: HashSet<u32> = DUMPED.lock().unwrap().clone().unwrap_or_default();
        let mut missing: Vec<J> = Vec::new();
        for ldid in tcx.mir_keys(()) {
            if dumped.contains(&ldid.local_def_index.as_u32()) {
                continue;
            }
            let did = ldid.to_def_id();
            match tcx.def_kind(did) {
                DefKind::Const { .. } | DefKind::Static { .. } | DefKind::AssocConst { .. }
                | DefKind::AnonConst | DefKind::InlineConst => {
                    let b = tcx.mir_for_ctfe(did);
                    late.push(dump_body(tcx, *ldid, b, None));
                    let ps = tcx.promoted_mir(did);
                    for (i, pb) in ps.iter_enumerated() {
                        late.push(dump_body(tcx, *ldid, pb, Some(i.index())));
                    }
                }
                DefKind::Ctor(..) => {}
                k => {
                    missing.push(J::Obj(vec![
                        ("def", s(path_of(tcx, did))),
                        ("kind", s(format!("{:?}", k))),
                    ]));
                }
            }
        }
        // Trait impls.
        let mut impls = Vec::new();
        for (trait_did, impl_ids) in tcx.all_local_trait_impls(()).iter() {
            for imp in impl_ids {
                let self_ty = tcx.type_of(imp.to_def_id()).instantiate_identity().skip_norm_wip();
                let mut methods = Vec::new();
                for item in tcx.associated_items(imp.to_def_id()).in_definition_order() {
                    if item.is_fn() {
                        methods.push(J::Obj(vec![
                            ("name", s(item.name().to_string())),
                            ("def", s(path_of(tcx, item.def_id))),
                        ]));
                    }
                }
                impls.push(J::Obj(vec![
                    ("trait", s(path_of(tcx, *trait_did))),
                    ("self_ty", s(ty_str(tcx, self_ty))),
                    ("self_adt", ty_adt(tcx, self_ty)),
                    ("impl", s(path_of(tcx, imp.to_def_id()))),
                    ("span", span_json(tcx, tcx.def_span(imp.to_def_id()))),
                    ("methods", J::Arr(methods)),
                ]));
            }
        }
        // ADTs.
        let mut adts = Vec::new();
        for ldid in tcx.hir_crate_items(()).definitions() {
            let did = ldid.to_def_id();
            match tcx.def_kind(did) {
                DefKind::Enum | DefKind::Struct => {
                    let def = tcx.adt_def(did);
                    let mut variants = Vec::new();
                    if def.is_enum() {
                        for (vidx, discr) in def.discriminants(tcx) {
                            let v = def.variant(vidx);
                            variants.push(J::Obj(vec![
                                ("name", s(v.name.to_string())),
                                ("vi", n(vidx.index())),
                                ("discr", J::Num(discr.val as i128)),
                                (
                                    "fields",
                                    J::Arr(
                                        v.fields
                                            .iter()
                                            .map(|fd| {
                                                J::Obj(vec![
                                                    ("name", s(fd.name.to_string())),
                                                    (
                                                        "ty",
                                                        s(ty_str(tcx, 
                                                            tcx.type_of(fd.did)
                                                                .instantiate_identity()
                                                                .skip_norm_wip(),
                                                        )),
                                                    ),
                                                ])
                                            })
                                            .collect(),
                                    ),
                                ),
                            ]));
                        }
                    } else {
                        let v = def.non_enum_variant();
                        variants.push(J::Obj(vec![
                            ("name", s(v.name.to_string())),
                            ("vi", n(0)),
                            ("discr", J::Num(0)),
                            (
                                "fields",
                                J::Arr(
                                    v.fields
                                        .iter()
                                        .map(|fd| {
                                            J::Obj(vec![
                                                ("name", s(fd.name.to_string())),
                                                (
                                                    "ty",
                                                    s(ty_str(tcx, 
                                                        tcx.type_of(fd.did)
                                                            .instantiate_identity()
                                                            .skip_norm_wip(),
                                                    )),
                                                ),
                                            ])
                                        })
                                        .collect(),
                                ),
                            ),
                        ]));
                    }
                    adts.push(J::Obj(vec![
                        ("path", s(path_of(tcx, did))),
                        ("kind", s(if def.is_enum() { "enum" } else { "struct" })),
                        ("repr", s(format!("{:?}", def.repr().int))),
                        ("variants", J::Arr(variants)),
                        ("span", span_json(tcx, tcx.def_span(did))),
                    ]));
                }
                _ => {}
            }
        }
        // Local constants referenced from bodies, evaluated now (no cycle any more).
        let mut consts = Vec::new();
        let wanted: HashSet<u32> = LOCAL_CONSTS.lock().unwrap().iter().cloned().collect();
        for ldid in tcx.hir_crate_items(()).definitions() {
            if !wanted.contains(&ldid.local_def_index.as_u32()) {
                continue;
            }
            let did = ldid.to_def_id();
            let mut f: Vec<(&'static str, J)> = vec![("path", s(path_of(tcx, did)))];
            if tcx.generics_of(did).is_empty() {
                if let Ok(val) = tcx.const_eval_poly(did) {
                    match val {
                        mir::ConstValue::Scalar(sc) => {
                            if let Ok(si) = sc.try_to_scalar_int() {
                                f.push(("int", J::Num(si.to_bits_unchecked() as i128)));
                            }
                        }
                        mir::ConstValue::Slice { alloc_id, meta } => {
                            let alloc = tcx.global_alloc(alloc_id).unwrap_memory();
                            let a = alloc.inner();
                            let len = meta as usize;
                            if len <= a.len() {
                                let bytes =
                                    a.inspect_with_uninit_and_ptr_outside_interpreter(0..len);
                                f.push(("str", s(String::from_utf8_lossy(bytes).to_string())));
                            }
                        }
                        _ => {}
                    }
                }
            }
            consts.push(J::Obj(f));
        }
        let mut head = String::new();
        write_json(
            &J::Obj(vec![
                ("crate", s(crate_name.clone())),
                ("unit", s(if is_bin { "bin" } else { "lib" })),
                ("nonce", s(std::env::var("BWFACTS_NONCE").unwrap_or_default())),
                ("rustc", s(option_env!("CFG_VERSION").unwrap_or("nightly"))),
                ("impls", J::Arr(impls)),
                ("adts", J::Arr(adts)),
                ("consts", J::Arr(consts)),
                ("missing", J::Arr(missing)),
            ]),
            &mut head,
        );
        let mut all = BODIES.lock().unwrap();
        all.extend(late);
        let mut out = String::with_capacity(all.iter().map(|b| b.len() + 2).sum::<usize>() + head.len() + 64);
        out.push_str("{\"head\":");
        out.push_str(&head);
        out.push_str(",\n\"bodies\":[\n");
        for (i, b) in all.iter().enumerate() {
            if i > 0 {
                out.push_str(",\n");
            }
            out.push_str(b);
        }
        out.push_str("\n]}\n");
        let prefix = std::env::var("BWFACTS_OUT").unwrap_or_else(|_| "/var/tmp/bwfacts".into());
        let path = format!(
            "{}.{}.{}.json",
            prefix,
            crate_name,
            if is_bin { "bin" } else { "lib" }
        );
        // One write per process.
        std::fs::write(&path, out).expect("bwfacts: cannot write fact file");
        Compilation::Continue
    }
}

fn main() {
    let mut args: Vec<String> = std::env::args().collect();
    // RUSTC_WORKSPACE_WRAPPER passes the real rustc as argv[1].
    if args.len() > 1 && (args[1].ends_with("rustc") || args[1].contains("/rustc")) {
        args.remove(1);
    }
    // extra codegen flags for the analysed crates only (e.g. the release profile's
    // `-Coverflow-checks=off`), without invalidating the dependencies' build
    if let Ok(extra) = std::env::var("BWFACTS_EXTRA_ARGS") {
        let is_target = args.windows(2).any(|w| w[0] == "--crate-name" && w[1] == "blockwatch");
        if is_target {
            args.extend(extra.split_whitespace().map(|s| s.to_string()));
        }
    }
    rustc_driver::run_compiler(&args, &mut Cb);
}
