#!/bin/bash
# usage: refrun.sh [patch ...]   (default: /verif/refactors/*.patch)
# behaviour-preserving refactorings: every check must stay silent on each of them
cd /verif
IDS=${IDS:-$(python3 -c "import json;print(' '.join(c['property_id'] for c in json.load(open('MANIFEST.json'))['checks']))")}
WT=${WT:-/var/tmp/refrun/wt}
if [ ! -d $WT ]; then mkdir -p /var/tmp/refrun; git -C /repo worktree add --detach $WT HEAD -q; fi
PATCHES=${@:-$(ls /verif/refactors/*.patch)}
for p in $PATCHES; do
  cd $WT && git checkout -q -- . && git clean -fdq && git checkout -q --detach $(git -C /repo rev-parse HEAD)
  git apply $p || { echo "$p: PATCH-FAIL"; continue; }
  cd /verif
  fired=""
  for id in $IDS; do
    out=$(BW_EVIDENCE_DIR=/var/tmp/refrun/evidence BW_REPO=$WT ./check $id 2>&1); rc=$?
    if [ $rc -ne 0 ]; then fired="$fired $id:$(echo "$out" | sed -n 's/^  rule=\(\S*\) key=\(\S*\).*/\2/p' | head -${NKEYS:-3} | tr '\n' ',')"; fi
  done
  echo "$(basename $p .patch): ${fired:-SILENT}"
done
cd $WT && git checkout -q -- . && git clean -fdq
