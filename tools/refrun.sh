#!/bin/bash
# usage: refrun.sh <dir with R*.patch.diff>  — behaviour-preserving refactorings: every check must stay silent
cd /verif
IDS=$(python3 -c "import json;print(' '.join(c['property_id'] for c in json.load(open('MANIFEST.json'))['checks']))")
WT=/var/tmp/seedrun/wt
for p in $1/R*.patch.diff; do
  cd $WT && git checkout -q -- . && git clean -fdq && git checkout -q --detach $(git -C /repo rev-parse HEAD)
  git apply $p || { echo "$p: PATCH-FAIL"; continue; }
  cd /verif
  fired=""
  for id in $IDS; do
    out=$(BW_EVIDENCE_DIR=/var/tmp/seedrun/evidence BW_REPO=$WT ./check $id 2>&1); rc=$?
    if [ $rc -ne 0 ]; then fired="$fired $id:$(echo "$out" | sed -n 's/^  rule=\(\S*\) key=\(\S*\).*/\2/p' | head -3 | tr '\n' ',')"; fi
  done
  echo "$(basename $(dirname $p))/$(basename $p .patch.diff): ${fired:-SILENT}"
done
cd $WT && git checkout -q -- . && git clean -fdq
