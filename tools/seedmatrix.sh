#!/bin/bash
# Applies each kept seed to /repo itself (git apply), runs every registered quick check, undoes it
# (git checkout -- .), and writes /verif/seeded/MATRIX.json. Evidence goes to a scratch directory.
cd /verif
IDS=$(python3 -c "import json;print(' '.join(c['property_id'] for c in json.load(open('MANIFEST.json'))['checks']))")
OUT=/var/tmp/seedmatrix; mkdir -p $OUT
git -C /repo diff --quiet || { echo "/repo is dirty"; exit 1; }
for d in seeded/*/; do
  s=$(basename $d)
  [ -f $d/patch.diff ] || continue
  git -C /repo apply $PWD/$d/patch.diff || { echo "$s: PATCH DOES NOT APPLY"; continue; }
  fired=""
  for id in $IDS; do
    BW_EVIDENCE_DIR=$OUT/evidence ./check $id > $OUT/$s.$id.out 2>&1; rc=$?
    if [ $rc -eq 1 ]; then fired="$fired $id"; fi
    if [ $rc -ge 2 ]; then fired="$fired $id(rc$rc)"; fi
  done
  git -C /repo checkout -- .
  echo "$s:$fired"
done | tee $OUT/matrix.txt
git -C /repo status --short | head -3
