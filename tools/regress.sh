#!/bin/bash
# usage: regress.sh ID [ID...]  — for the given properties: clean tree, own mutants, seeds of the property, all refactors
# (development loop; facts of every variant stay cached: BW_CACHE_KEEP=400)
export BW_CACHE_KEEP=400
cd /verif
for id in "$@"; do
  echo "## $id clean: $(./check $id | tail -1)"
  tools/mutrun.sh $id 2>&1 | grep -v ": HIT \[" | sed 's/^/   MUT /'
  for d in seeded/$id-*/; do
    r=$(tools/seedrun.sh $PWD/$d/patch.diff $id | grep -c "^VIOLATION")
    [ "$r" -ge 1 ] || echo "   SEED MISS $(basename $d)"
  done
  IDS=$id tools/refrun.sh 2>&1 | grep -v SILENT | sed 's/^/   REF /'
done
