#!/bin/bash
# usage: mutrun.sh [ID ...]  — runs every patch of /verif/mutants/<ID>/ against check <ID> in a scratch worktree
cd /verif
IDS=${@:-$(ls mutants)}
WT=${WT:-/var/tmp/seedrun/wt}
if [ ! -d $WT ]; then mkdir -p /var/tmp/seedrun; git -C /repo worktree add --detach $WT HEAD -q; fi
for id in $IDS; do
  for p in mutants/$id/*.patch; do
    exp=$(head -1 $p | sed -n 's/.*expect=\(\S*\).*/\1/p')
    cd $WT && git checkout -q -- . && git clean -fdq && git checkout -q --detach $(git -C /repo rev-parse HEAD)
    if ! git apply /verif/$p 2>/dev/null; then echo "$id/$(basename $p .patch): PATCH-FAIL"; cd /verif; continue; fi
    cd /verif
    out=$(BW_EVIDENCE_DIR=/var/tmp/seedrun/evidence BW_REPO=$WT ./check $id 2>&1); rc=$?
    rules=$(echo "$out" | sed -n 's/^  rule=\(\S*\) key=\(\S*\).*/\1/p' | sort -u | tr '\n' ' ')
    hit="MISS"
    if [ $rc -eq 2 ]; then hit="NOCOMPILE"; elif [ -z "$exp" ]; then [ $rc -eq 1 ] && hit="HIT"; else echo "$rules" | grep -q "$exp" && hit="HIT"; [ "$hit" = "MISS" ] && [ $rc -eq 1 ] && hit="HIT-OTHER"; fi
    echo "$id/$(basename $p .patch): $hit [$rules] (expect $exp)"
  done
done
cd $WT && git checkout -q -- . && git clean -fdq
