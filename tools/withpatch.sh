#!/bin/bash
# usage: withpatch.sh <patch> <command...> — applies the patch to a scratch worktree, extracts its facts,
# runs the command with BW_REPO / BW_FACTS / F set to them, and resets the worktree (development aid)
PATCH=$(readlink -f $1); shift
WT=${WT:-/var/tmp/refrun/wt}
if [ ! -d $WT ]; then mkdir -p /var/tmp/refrun; git -C /repo worktree add --detach $WT HEAD -q; fi
cd $WT && git checkout -q -- . && git clean -fdq && git checkout -q --detach $(git -C /repo rev-parse HEAD)
git apply $PATCH || { echo "PATCH-FAIL"; exit 3; }
cd /verif
export BW_REPO=$WT BW_EVIDENCE_DIR=/var/tmp/refrun/evidence BW_CACHE_KEEP=400
export F=$(./check --facts-prefix)
export BW_FACTS=$F
"$@"
rc=$?
cd $WT && git checkout -q -- . && git clean -fdq
exit $rc
