#!/usr/bin/env python3
"""Regenerates /verif/MANIFEST.json from the table below (kept in one place so that the manifest
stays valid and in step with the rules that exist)."""
import json
import os
import sys

VERIF = "/verif"
sys.path.insert(0, VERIF)

TECH = "static analysis: custom rules over rustc's pre-borrowck MIR (rustc_private fact extractor + Python analyses: CFG dominance/post-dominance, origin-set dataflow, decision-table path enumeration, result-flow, who-may-call)"

CLAIMS = {
    "C06": ("other", "4.C06", "keep-sorted control skeleton: direction table (exhaustive), comparator per format and argument order, adjacency, first-violation-wins, key provenance, no carried state, no swallowed error. Decides these structural necessary conditions on all paths, not the verdict on a concrete key sequence."),
    "C07": ("other", "4.C07", "keep-unique control skeleton: push iff !seen.insert(key), every key inserted, per-block set/regex, first duplicate leaves the loop, key provenance. Structural part only."),
    "C08": ("other", "4.C08", "line-pattern control skeleton: is_match(line.trim()), blank/matching lines continue, push iff !is_match, first failure leaves the loop, pattern = attribute text compiled before the loop. Structural part only."),
    "C09": ("other", "4.C09", "line-count operator tables decided exhaustively (5 operators x parse/compare/print), push polarity, provenance of count, bound and diagnostic data."),
    "C10": ("other", "4.C10", "provenance of the four numbers of every reported range for all seven validators (content start + enumerate index / pointer offset / Match::range; start_tag_position_range.{start,end}); last-newline based tag column. Not the arithmetic."),
    "C11": ("other", "4.C11", "exit/report skeleton (single exit(1) under a sticky Error flag over all diagnostics, one JSON document to stderr, list to stdout), complete severity tables, severity provenance, append-only merging, exactly-once validator detection, no swallowed Result reachable from main."),
    "C12": ("other", "4.C12", "unmatched end tag / leftover start tag lead only to Err; LIFO stack; all parser impls use the pairing function; error carries the file path; return-without-parse only for unknown grammar; tag scanner stops only at the exact end; no swallowed Result."),
    "C14": ("other", "4.C14", "name = attribute key = diagnostic code for the 7 validators (21 cells); detector filter's complete decision table; -d/-e set flow; exact-membership flag validation; both-flags rejection dominating everything; lose-nothing/duplicate-nothing detection loop."),
}

NOT_YET = {
}

NA = {
    "C05": "round trip over an unbounded attribute grammar built from winnow parser combinators: only a language-equivalence (automata/solver) argument or execution decides it; no robust structural necessary condition remains beyond what C12.scan (scanner stops only at the exact end) and C03 (length-preserving blanking) already check (DESIGN.md §4 C05, §6)",
}


def main():
    props = [json.loads(l) for l in open(os.path.join(VERIF, "properties.jsonl"))]
    ids = [p["id"] for p in props]
    checks = []
    for pid in ids:
        if pid in CLAIMS and os.path.exists(os.path.join(VERIF, "rules", pid + ".py")):
            level, ref, text = CLAIMS[pid]
            checks.append({
                "property_id": pid,
                "quick_cmd": "./check %s --tier quick" % pid,
                "thorough_cmd": "./check %s --tier thorough" % pid,
                "evidence_file": "/verif/evidence/%s.json" % pid,
                "replay_cmd_template": "cat {path}; ./check %s" % pid,
                "engine": "bwfacts+engine",
                "level_claimed": {"category": level, "text": text, "design_ref": "DESIGN.md §" + ref},
                "level_note": "Trusted: rustc's MIR construction and trait resolution on the pre-installed nightly; that nightly and stable build the same program (no cfg in src/); the small std/third-party API models in engine/prov.py and engine/resultflow.py; the reasons in spec/exceptions.json. Dependencies' bodies are not analysed.",
                "technique": TECH,
            })
    na = []
    for pid in ids:
        if pid in [c["property_id"] for c in checks]:
            continue
        reason = NA.get(pid) or NOT_YET.get(pid) or "check under construction in this build phase (rules not yet registered); see DESIGN.md §4 for the planned static rules"
        na.append({"property_id": pid, "reason": reason})
    m = {
        "version": 1,
        "setup_cmd": "cd /verif/driver && cargo build --release --offline && cd /verif && ./extract.sh /repo /verif/.cache/facts/setup >/dev/null",
        "hooks": {
            "guard": "mennanov_blockwatch_verif",
            "enable": "none: pure static analysis over the compiler's MIR; /repo carries no hooks (the only /repo commits are the seven unguarded `fix:` commits listed in known_findings.txt)",
            "baseline_off_cmd": "cd /repo && cargo test --workspace --no-fail-fast --offline",
            "source_commits": [],
            "add_only": True,
        },
        "engines": [
            {"name": "bwfacts", "path": "/verif/driver", "serves_properties": [c["property_id"] for c in checks], "kind_free_text": "rustc_private driver (nightly) injected with RUSTC_WORKSPACE_WRAPPER under `cargo +nightly check --offline --locked --lib --bins`; dumps pre-borrowck MIR, promoteds, resolved callees, evaluated constants, trait impls and ADTs as JSON"},
            {"name": "engine", "path": "/verif/engine", "serves_properties": [c["property_id"] for c in checks], "kind_free_text": "Python 3 stdlib: CFG kit (dominators, post-dominators, loops, control dependence), provenance (origin-set dataflow with summaries), symbolic expressions, decision tables, result-flow, call graph; rules in /verif/rules, tables in /verif/spec"},
        ],
        "checks": checks,
        "not_applicable": na,
        "notes": "All checks are static: they read /repo's current working tree through the compiler (facts are re-extracted whenever src/, Cargo.toml or Cargo.lock change; cache key = content hash) and never run blockwatch. Exit 2 (no VIOLATION line) means /repo does not compile.",
    }
    with open(os.path.join(VERIF, "MANIFEST.json"), "w") as f:
        json.dump(m, f, indent=1)
    print("checks:", [c["property_id"] for c in checks])
    print("not_applicable:", [n["property_id"] for n in na])


main()
