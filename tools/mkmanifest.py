#!/usr/bin/env python3
"""Regenerates /verif/MANIFEST.json from the table below (kept in one place so that the manifest
stays valid and in step with the rules that exist)."""
import json
import os
import sys

VERIF = "/verif"
sys.path.insert(0, VERIF)

TECH = "static analysis: custom rules over rustc's pre-borrowck MIR (rustc_private fact extractor + Python analyses over a normalised view of each function - virtual inlining, closure / combinator / iterator-pipeline expansion, jump threading - : CFG dominance/post-dominance and control dependence, origin-set dataflow, decision-table path enumeration, case analysis by path-sensitive constant propagation, symbolic length accounting, unit (char/byte) analysis, result-flow, who-may-call, panic-site and loop-variant census)"

CLAIMS = {
    "C01": ("other", "4.C01", "Coordinate / unit / ordering discipline of drift detection decided on every path: LineChange lines in new-file coordinates (origin sets), monotone predicates of every ordered search (finite-model evaluation of the closures' MIR), FIFO use and per-hunk flush of the deleted-line queue, char->byte conversion of intra-line diff indices, is_content_modified guards, (file,name) key shapes with own-file fallback, push iff missing, no state leaking between files, single strip of `b/`, no swallowed Result. Necessary conditions; position arithmetic and the unidiff parser are not decided. One known finding (deletions recorded at old-file lines). Also: the per-block selection closure is stateless and tests every block against the file's complete change list; every file section of the diff contributes its changes unless unidiff reports the file as removed; complete traversals (no truncating adaptor over files / hunks / lines). Also (unit analysis): no value counted in characters (count/position/enumerate over chars()) is used as a bound of a str slice or added to a byte quantity. The filter mode per parser call site and append-only merging are shared in."),
    "C02": ("other", "4.C02", "Block filter's complete truth table (closure MIR evaluated on all 8 valuations), filter mode per call site, diff-entry consumption only after the allow/ignore decision, complete reader set of the diff flags (non-interference) plus no carried state in the six per-block validators, sibling agreement of the two span intersections, should_scan / default-glob table, shared search / unit / coordinate rules. Boundary arithmetic is not decided. Also: inclusive vs half-open position ranges are compared with the matching operator and no half-open range is built from an inclusive end; the default `**` glob is installed only when the merged glob set from Args::globs() is empty and the run is interactive. Also (unit analysis): no value counted in characters (count/position/enumerate over chars()) is used as a bound of a str slice or added to a byte quantity. A tag's column on a continuation line is measured from the last newline (shared)."),
    "C03": ("other", "4.C03", "Structural necessary conditions only: compared node kinds exist in the pinned grammars' node-types.json and every comment-like kind is handled or excepted; length-preserving delimiter blanking; same-ends content ranges; complete (row, byte, first-row column) rebasing of nested Markdown HTML comments; sorted / merged block order. What each generated grammar reports as a comment is NOT decided. Also: each grammar module builds its parser from its own language's grammar constant; a tag's column inside a multi-line comment is measured from the last newline; the tree walk offers every node to the comment visitor (unconditional descent, queries from the root, no kind-guarded hand recursion). Also (unit analysis): no value counted in characters (count/position/enumerate over chars()) is used as a bound of a str slice or added to a byte quantity. Length preservation of the hand-written comment normalisers is a symbolic proof obligation (sum of pushed piece lengths = len(text) on every returning path)."),
    "C04": ("other", "4.C04", "Census with discharge table: every panic-capable site of blockwatch's own reachable code (enumerated from MIR) is auto-safe or carries a one-line discharge; every loop has a termination variant; the call graph is acyclic; exit only in the report. Not a proof of termination; dependencies are not analysed. Also (unit analysis): no value counted in characters (count/position/enumerate over chars()) is used as a bound of a str slice or added to a byte quantity."),
    "C06": ("other", "4.C06", "keep-sorted control skeleton: direction table (exhaustive), comparator per format and argument order, adjacency, first-violation-wins, key provenance, no carried state, no swallowed error. Decides these structural necessary conditions on all paths, not the verdict on a concrete key sequence. The direction table is decided by case analysis over the normalised validator (4 value classes x 3 comparator answers), the neighbour pairs by a second case analysis (8 key patterns of 3 lines); the reported line derives from the content's start line plus the enumerate index; the validator never reads the modification flags; the lazy detection loop asks every pending detector about every block."),
    "C07": ("other", "4.C07", "keep-unique control skeleton: push iff !seen.insert(key), every key inserted, per-block set/regex, first duplicate leaves the loop, key provenance. Structural part only. Also: the reported line derives from the content's start line plus the enumerate index; the validator never reads the modification flags; complete detection loop."),
    "C08": ("other", "4.C08", "line-pattern control skeleton: is_match(line.trim()), blank/matching lines continue, push iff !is_match, first failure leaves the loop, pattern = attribute text compiled before the loop. Structural part only. Also: the reported line derives from the content's start line plus the enumerate index (not from the start tag's position); the validator never reads the modification flags; complete detection loop."),
    "C09": ("other", "4.C09", "line-count operator tables decided exhaustively (5 operators x parse/compare/print), push polarity, provenance of count, bound and diagnostic data. Also: the validator never reads the modification flags; complete detection loop."),
    "C10": ("other", "4.C10", "provenance of the four numbers of every reported range for all seven validators (content start + enumerate index / pointer offset / Match::range; start_tag_position_range.{start,end}); last-newline based tag column. Not the arithmetic. Also: nested (Markdown HTML) comment positions are rebased by row and, on the first row only, by column; the content's start column is applied exactly on content line index 0. Also (unit analysis): no value counted in characters (count/position/enumerate over chars()) is used as a bound of a str slice or added to a byte quantity."),
    "C11": ("other", "4.C11", "exit/report skeleton (single exit(1) under a sticky Error flag over all diagnostics, one JSON document to stderr, list to stdout), complete severity tables, severity provenance, append-only merging, exactly-once validator detection, no swallowed Result reachable from main. Also: the list report appends exactly one entry per selected block to the list it returns (no keyed / lossy container). Also: once the blocks are parsed every Ok return of main passes the list writer or validators::run (no early Ok); in the report function each violation appends exactly one value to a list (no keyed / de-duplicating container)."),
    "C12": ("other", "4.C12", "unmatched end tag / leftover start tag lead only to Err; LIFO stack; all parser impls use the pairing function; error carries the file path; return-without-parse only for unknown grammar; tag scanner stops only at the exact end; no swallowed Result. Also: the comment traversal is complete and no touched, non-removed file section of the diff is skipped. Also: a diff entry removed from the change map is parsed on every path that stays in the scan loop; the directory walk drops an entry only when Path::is_dir() holds (symbolic links to files stay files)."),
    "C13": ("other", "4.C13", "fail-closed mechanism: result-flow over every Result-producing call reachable from main (no swallowed Err incl. both levels of every join), presence of the 26 Err-producing branches / propagated fallible calls the named malformations rely on, numeric ordering only from parsed numbers. Value-level notion of 'malformed' is not decided. Also: the lazy detection loop asks every pending detector about every block (a malformed rule can only be reported if its validator is created). Also: the unknown-direction row of keep-sorted's direction table by case analysis; a fresh Lua interpreter per script run (a script without `validate` cannot call another script's)."),
    "C14": ("other", "4.C14", "name = attribute key = diagnostic code for the 7 validators (21 cells); detector filter's complete decision table; -d/-e set flow; exact-membership flag validation; both-flags rejection dominating everything; lose-nothing/duplicate-nothing detection loop. Also: the command line is parsed with clap's exiting parser (or a fallible one whose Err is returned); -d/-e are single-value accumulating options; no Result is dropped in main / flags / the validator driver; per-file diagnostics are merged append-only."),
    "C15": ("other", "4.C15", "ignore (and allow) guards in front of every file-parser call on the same path; predicate/field/flag wiring of the two glob sets; diff entries consumed only after the allow/ignore decision; single `b/` strip; root discovery and use; std::fs confined to the file-system role, root discovery and the Lua loader; standard walker filters untouched. Glob and walker semantics are not decided. Also: Args::globs() compiles the positional and the `list` globs together, the `no globs` test is made on that merged set, and `--ignore` takes exactly one value per use while the positional globs take one or more. Also: the pattern handed to Glob::new is the user's text unchanged; removed diff entries are parsed; the walk drops directories only; every non-removed file section of the diff contributes its entry."),
    "C16": ("other", "4.C16", "complete suffix->module table and each module's grammar constant (exhaustive over 39 keys / 23 modules); findability and shadowing of every key under the code's lookup order (table computation); untransformed candidate suffix; user mapping dominates built-in lookups; read/parse dominated by a successful lookup; -E values validated against the table's keys before parsing. Also: Args::validate cannot return Ok without having examined every -E mapping, and it dominates parsing in every mode. Also: the lookup candidate derives from Path::file_name (not from the whole path); single `b/` strip of diff paths (shared)."),
    "C17": ("proof", "4.C17", "Complete static derivation over a finite registration graph: the interpreter factory's MIR is partially evaluated on every equivalence class of BLOCKWATCH_LUA_MODE; constructor / flags / removed globals are pushed through the library map and luaL_Reg tables read from the pinned mlua and Lua 5.4 sources; obligations are set inclusions on the derived global-name sets; Lua::new* only in the factory, one interpreter per script run."),
    "C18": ("other", "4.C18", "check-lua structure: spawn / call multiplicities, provenance of ctx fields, attrs entries and both arguments, result table over mlua::Value's variants, every joined result reaches the diagnostics map and the join loop ends only on exhaustion or Err, content selection, no swallowed Result, fresh interpreter per run. mlua marshalling and scheduling are not decided. Also: `validate` is called with the dynamically typed result type (no mlua coercion of numbers into strings). Also: the validator never reads the modification flags; complete detection loop; task arguments are resolved through an async fn's parameters as well as through an async block's captures."),
    "C19": ("other", "4.C19", "check-ai structure: task / request multiplicities, environment variables -> client configuration -> request, empty-key Err dominating the request, Display-only user message, complete reply table, collection of every joined result, content selection, no swallowed Result in client, task and collector. HTTP client fault mapping is dependency behaviour and not decided. Also: key and base URL overrides are applied on every path to the client's construction (async-openai's defaults read ambient OPENAI_* variables). Also: the validator never reads the modification flags; complete detection loop."),
    "C20": ("other", "4.C20", "absence of order-, time- and location-sensitive constructs: loops over hash-based iteration / join_next (exits, keyed inserts, overwritten outer variables), order-sensitive selection, ambient sources, environment and current_dir uses, parser calls without previous tree, sorted outputs, per-block isolation, one interpreter per run, append-only merging. Also: the lazy detection loop asks every pending detector about every block (which validators exist must not depend on hash order)."),
}

NOT_YET = {
}

NA = {
    "C05": "round trip over an unbounded attribute grammar built from winnow parser combinators: only a language-equivalence (automata/solver) argument or execution decides it; no robust structural necessary condition remains beyond what C12.scan (scanner stops only at the exact end) and C03 (length-preserving blanking) already check (DESIGN.md §4 C05, §6)",
}


def main():
    props = [json.loads(l) for l in open(os.path.join(VERIF, "properties.jsonl"))]
    ids = [p["id"] for p in props]
    checks = []
    for pid in ids:
        if pid in CLAIMS and os.path.exists(os.path.join(VERIF, "rules", pid + ".py")):
            level, ref, text = CLAIMS[pid]
            checks.append({
                "property_id": pid,
                "quick_cmd": "./check %s --tier quick" % pid,
                "thorough_cmd": "./check %s --tier thorough" % pid,
                "evidence_file": "/verif/evidence/%s.json" % pid,
                "replay_cmd_template": "cat {path}; ./check %s" % pid,
                "engine": "bwfacts+engine",
                "level_claimed": {"category": level, "text": text, "design_ref": "DESIGN.md §" + ref},
                "level_note": "Trusted: rustc's MIR construction and trait resolution on the pre-installed nightly; that nightly and stable build the same program (no cfg in src/); the small std/third-party API models in engine/prov.py and engine/resultflow.py; the reasons in spec/exceptions.json. Dependencies' bodies are not analysed.",
                "technique": TECH,
            })
    na = []
    for pid in ids:
        if pid in [c["property_id"] for c in checks]:
            continue
        reason = NA.get(pid) or NOT_YET.get(pid) or "check under construction in this build phase (rules not yet registered); see DESIGN.md §4 for the planned static rules"
        na.append({"property_id": pid, "reason": reason})
    m = {
        "version": 1,
        "setup_cmd": "cd /verif/driver && cargo build --release --offline && cd /verif && ./extract.sh /repo /verif/.cache/facts/setup >/dev/null",
        "hooks": {
            "guard": "mennanov_blockwatch_verif",
            "enable": "none: pure static analysis over the compiler's MIR; /repo carries no hooks (the only /repo commits are the seven unguarded `fix:` commits listed in known_findings.txt)",
            "baseline_off_cmd": "cd /repo && cargo test --workspace --no-fail-fast --offline",
            "source_commits": [],
            "add_only": True,
        },
        "engines": [
            {"name": "bwfacts", "path": "/verif/driver", "serves_properties": [c["property_id"] for c in checks], "kind_free_text": "rustc_private driver (nightly) injected with RUSTC_WORKSPACE_WRAPPER under `cargo +nightly check --offline --locked --lib --bins`; dumps pre-borrowck MIR, promoteds, resolved callees, evaluated constants, trait impls and ADTs as JSON"},
            {"name": "engine", "path": "/verif/engine", "serves_properties": [c["property_id"] for c in checks], "kind_free_text": "Python 3 stdlib: CFG kit (dominators, post-dominators, loops, control dependence), provenance (origin-set dataflow with summaries), symbolic expressions, decision tables, result-flow, call graph; rules in /verif/rules, tables in /verif/spec"},
        ],
        "checks": checks,
        "not_applicable": na,
        "notes": "All checks are static: they read /repo's current working tree through the compiler (facts are re-extracted whenever src/, Cargo.toml or Cargo.lock change; cache key = content hash) and never run blockwatch. Exit 2 (no VIOLATION line) means /repo does not compile.",
    }
    with open(os.path.join(VERIF, "MANIFEST.json"), "w") as f:
        json.dump(m, f, indent=1)
    print("checks:", [c["property_id"] for c in checks])
    print("not_applicable:", [n["property_id"] for n in na])


main()
