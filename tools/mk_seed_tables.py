#!/usr/bin/env python3
"""Builds the per-round tables of DESIGN §9.4 from seeded/DESCRIPTIONS.json and the output of a run of
every seed against the check of its own property (lines `<seed>: <key> <key> ...` or `<seed>: MISS`).
usage: mk_seed_tables.py <seedown.out>   (development aid; prints markdown)"""
import json
import os
import re
import sys

VERIF = os.path.dirname(os.path.dirname(os.path.abspath(__file__)))


def main():
    run = {}
    for line in open(sys.argv[1]):
        m = re.match(r"^(C\d\d-[A-M]):\s*(.*)$", line.strip())
        if m:
            run[m.group(1)] = m.group(2)
    desc = json.load(open(os.path.join(VERIF, "seeded/DESCRIPTIONS.json")))
    # round 1 descriptions live in DESIGN.md's first table
    for line in open(os.path.join(VERIF, "DESIGN.md")):
        m = re.match(r"^\| (C\d\d-[AB]) \| ([^|]+) \|", line)
        if m and m.group(1) not in desc:
            desc[m.group(1)] = m.group(2).strip()
    rounds = [("A", "B"), ("C", "D"), ("E", "F"), ("G", "H"), ("I", "I"), ("J", "J"), ("K", "K"), ("L", "L"), ("M", "M")]
    for i, (x, y) in enumerate(rounds, 1):
        print("**Round %d (%s / %s).**\n" % (i, x, y))
        print("| seed | what it does | rule(s) of its own property that fire |")
        print("|---|---|---|")
        for s in sorted(run):
            if s[-1] not in (x, y):
                continue
            keys = run[s].split()
            if keys == ["MISS"] or not keys:
                rules = "**not reported** (see §9.2, undecided)"
            else:
                rs = []
                for k in keys:
                    r = k.split("|")[0]
                    if r not in rs:
                        rs.append(r)
                rules = ", ".join(rs)
            print("| %s | %s | %s |" % (s, desc.get(s, "?").replace("|", "/"), rules))
        print()


if __name__ == "__main__":
    main()
