#!/usr/bin/env python3
"""Debug aid: print bodies of the fact base in a compact readable form.  usage: show.py <regex> [--facts PREFIX]"""
import sys, re, json, glob, os
sys.path.insert(0, '/verif')
from engine import facts as F
from engine.expr import Expr, render
from engine.facts import callee_name

def pl(p):
    s = "_%d" % p["l"]
    for e in p["p"]:
        if e == "deref": s = "(*%s)" % s
        elif isinstance(e, dict):
            if "f" in e: s += "." + e["f"]
            elif "dc" in e: s = "(%s as %s)" % (s, e["dc"])
            elif "idx" in e: s += "[_%d]" % e["idx"]
            elif "cidx" in e: s += "[%d]" % e["cidx"]
            elif "sub_from" in e: s += "[%d..]" % e["sub_from"]
        else: s += "<%s>" % e
    return s
def op(o, facts):
    if "c" in o: return pl(o["c"])
    if "m" in o: return "move " + pl(o["m"])
    k = o.get("k", {})
    v = facts.const_str(k)
    if v is not None: return "const %r" % v
    if "fn" in k: return "fn " + k["fn"]
    if "int" in k: return "const %d" % k["int"]
    return "const " + k.get("text", "?")
def rv(r, facts):
    k = r["k"]
    if k == "use": return op(r["op"], facts)
    if k == "ref": return ("&mut " if r["mut"] else "&") + pl(r["place"])
    if k == "rawptr": return "&raw " + pl(r["place"])
    if k == "cast": return "%s as %s [%s]" % (op(r["op"], facts), r["ty"], r["kind"])
    if k == "bin": return "%s(%s, %s)" % (r["op"], op(r["a"], facts), op(r["b"], facts))
    if k == "un": return "%s(%s)" % (r["op"], op(r["a"], facts))
    if k == "discr": return "discr(%s)" % pl(r["place"])
    if k == "agg":
        lab = r.get("agg")
        if lab == "adt": lab = "%s::%s" % (r["path"].split("::")[-1], r["variant"])
        elif lab in ("closure", "coroutine"): lab = lab + ":" + r["path"]
        names = r.get("fields") or []
        parts = []
        for i, o in enumerate(r["ops"]):
            parts.append(("%s: " % names[i] if i < len(names) else "") + op(o, facts))
        return "%s{%s}" % (lab, ", ".join(parts))
    return json.dumps(r)[:200]
def main():
    rx = sys.argv[1]
    prefix = None
    if "--facts" in sys.argv: prefix = sys.argv[sys.argv.index("--facts") + 1]
    if prefix is None:
        prefix = '/verif/.cache/facts/cur'
    facts = F.load(prefix)
    view = None
    if "--inline" in sys.argv: view = "inline"
    if "--sugar" in sys.argv: view = "sugar"
    if prefix is None and os.path.exists('/verif/.cache/facts/cur.blockwatch.lib.json') and "--latest" not in sys.argv:
        pass
    for b in list(facts.bodies.values()):
        if not re.search(rx, b.id): continue
        if view:
            from engine.inline import inlined
            from engine.core import Ctx
            b = inlined(facts, b, skip=Ctx.domain_api, tag="show", sugar=(view == "sugar"))
        print("=" * 100)
        print(b.id, b.kind, "argc=%d" % b.argc, b.loc(), "coroutine" if b.coroutine else "")
        for i, l in enumerate(b.locals):
            if l.get("name") or i <= b.argc: print("   _%d: %s  %s" % (i, l["ty"], l.get("name") or ""))
        for i, bl in enumerate(b.blocks):
            if bl["cleanup"]: continue
            if view and not getattr(b, "_reach", None):
                from engine.cfg import cfg_of
                b._reach = cfg_of(b).reachable
            if view and i not in b._reach: continue
            print(" bb%d:" % i)
            for s in bl["stmts"]:
                if s["k"] == "assign": print("     %s = %s      // L%s" % (pl(s["lhs"]), rv(s["rv"], facts), s["span"]["line"]))
                elif s["k"] == "setdiscr": print("     setdiscr %s = %d" % (pl(s["lhs"]), s["vi"]))
            t = bl["term"]
            if not t: continue
            k = t["k"]
            if k == "call":
                print("     %s = %s(%s) -> bb%s      // L%s" % (pl(t["dest"]), callee_name(t), ", ".join(op(a, facts) for a in t["args"]), t["t"], t["span"]["line"]))
            elif k == "switch":
                print("     switch %s [%s] else bb%d" % (op(t["op"], facts), ", ".join("%d->bb%d" % (v, tg) for v, tg in zip(t["vals"], t["targets"])), t["otherwise"]))
            elif k in ("goto", "drop", "falseedge", "falseunwind"):
                print("     %s -> bb%d" % (k + (" " + pl(t["place"]) if k == "drop" else ""), t["t"]))
            elif k == "assert":
                print("     assert(%s == %s, %s %s) -> bb%d" % (op(t["cond"], facts), t["expected"], t["msg"], t["detail"], t["t"]))
            elif k == "yield":
                print("     yield -> bb%d" % t["t"])
            else:
                print("     %s" % k)
main()
