#!/usr/bin/env python3
"""Generates the hand-written part of the sensitivity corpus (/verif/mutants/<ID>/<name>.patch):
each entry is ONE textual replacement in /repo's current sources that breaks ONE rule instance and
still compiles. Run once when the corpus is (re)built; the patches are committed and are what the
thorough tier applies to a scratch copy."""
import os
import subprocess
import sys
import tempfile

REPO = "/repo"
OUT = "/verif/mutants"

# (property, name, file, old, new, expect-rule-prefix)
M = [
 ("C01", "added-line-source-no", "src/diff_parser.rs",
  "                    // This is a new (added) line.\n                    line_changes.push(LineChange {\n                        line: line.target_line_no.unwrap(),",
  "                    // This is a new (added) line.\n                    line_changes.push(LineChange {\n                        line: line.source_line_no.unwrap_or_default(),", "C01.coord"),
 ("C01", "collect-unmodified", "src/validators/affects.rs",
  "                if !block_with_context.is_content_modified {\n                    // Blocks with unmodified content are not considered modified by this validator.\n                    continue;\n                }\n                if let Some(name) = block_with_context.block.name() {",
  "                if let Some(name) = block_with_context.block.name() {", "C01.guard"),
 ("C01", "fallback-first-file", "src/validators/affects.rs",
  "affected_file_path.unwrap_or_else(|| modified_block_file_path.clone());",
  "affected_file_path.unwrap_or_else(|| context.blocks.keys().next().cloned().unwrap_or_default());", "C01.key"),
 ("C01", "queue-lifo", "src/diff_parser.rs", "if let Some(deleted_line) = deleted_lines.pop_front() {\n                    // This is a modified line.", "if let Some(deleted_line) = deleted_lines.pop_back() {\n                    // This is a modified line.", "C01.fifo"),
 ("C02", "filter-and", "src/blocks.rs", "                || is_content_modified\n                || is_start_tag_modified\n            {", "                || (is_content_modified && is_start_tag_modified)\n            {", "C02.filter"),
 ("C02", "diff-site-all", "src/blocks.rs", "            line_changes.as_slice(),\n            BlocksFilter::ModifiedOnly,", "            line_changes.as_slice(),\n            BlocksFilter::All,", "C02.mode"),
 ("C02", "validator-reads-flag", "src/validators/line_count.rs", "                let Some(expr) = block_with_context.block.attributes.get(\"line-count\") else {\n                    continue;\n                };",
  "                let Some(expr) = block_with_context.block.attributes.get(\"line-count\") else {\n                    continue;\n                };\n                if !block_with_context.is_content_modified && block_with_context._is_start_tag_modified {\n                    continue;\n                }", "C02.nonint"),
 ("C02", "flags-swapped", "src/blocks.rs", "                    _is_start_tag_modified: is_start_tag_modified,\n                    is_content_modified,", "                    _is_start_tag_modified: is_content_modified,\n                    is_content_modified: is_start_tag_modified,", "C02.filter"),
 ("C03", "wrong-kind", "src/language_parsers/python.rs", "python_style_comments_parser(&python_language, \"comment\")", "python_style_comments_parser(&python_language, \"comments\")", "C03.kinds"),
 ("C03", "short-blank", "src/language_parsers/mod.rs", "Some(source_code[node.byte_range()].replacen(\"#\", \" \", 1))", "Some(source_code[node.byte_range()].replacen(\"#\", \"\", 1))", "C03.blank"),
 ("C03", "content-wrong-end", "src/block_parser.rs", "block_start.comment.source_range.end..self.comment.source_range.start", "block_start.comment.source_range.start..self.comment.source_range.start", "C03.content"),
 ("C03", "positions-wrong-end", "src/block_parser.rs", "let content_start_position = block_start.comment.position_range.end.clone();", "let content_start_position = block_start.comment.position_range.start.clone();", "C03.content"),
 ("C04", "expect-on-rfind", "src/block_parser.rs", "                        .rfind('\\n')\n                        .unwrap_or(0)", "                        .rfind('\\n')\n                        .expect(\"newline\")", "C04.census"),
 ("C04", "cursor-zero", "src/tag_parser.rs", "current_input = &potential_tag_start[1..];", "current_input = &potential_tag_start[0..];", "C04.loops"),
 ("C04", "unwrap-captures", "src/validators/check_lua.rs", "        if let Some(c) = re.captures(block_with_context.block.content(file_content)) {\n            // If named group \"value\" exists use it, otherwise use the whole match\n            if let Some(m) = c.name(\"value\") {\n                m.as_str()",
  "        if let Some(c) = re.captures(block_with_context.block.content(file_content)) {\n            // If named group \"value\" exists use it, otherwise use the whole match\n            if let Some(m) = c.name(\"value\") {\n                c.get(1).unwrap().as_str().min(m.as_str())", "C04.census"),
 ("C06", "direction-swapped", "src/validators/keep_sorted.rs", "                    let violating_ord = if keep_sorted_normalized == \"asc\" {\n                        Ordering::Greater\n                    } else {\n                        Ordering::Less\n                    };",
  "                    let violating_ord = if keep_sorted_normalized == \"asc\" {\n                        Ordering::Less\n                    } else {\n                        Ordering::Greater\n                    };", "C06.dir"),
 ("C06", "prev-only-first", "src/validators/keep_sorted.rs", "                            prev_value = Some((curr_val, curr_range));", "                            if prev_value.is_none() {\n                                prev_value = Some((curr_val, curr_range));\n                            }", "C06.adjacent"),
 ("C06", "no-break", "src/validators/keep_sorted.rs", "                                            line_character_end,\n                                        )?);\n                                    break;", "                                            line_character_end,\n                                        )?);", "C06.first"),
 ("C06", "cmp-args-swapped", "src/validators/keep_sorted.rs", "sort_format.cmp(prev_val, curr_val).with_context", "sort_format.cmp(curr_val, prev_val).with_context", "C06.cmp"),
 ("C06", "untrimmed-key", "src/validators/keep_sorted.rs", "            Some((trimmed_line, start..=end))", "            Some((line, start..=end))", "C06.key"),
 ("C06", "default-desc", "src/validators/keep_sorted.rs", "                        \"asc\".to_string()\n                    } else {", "                        \"desc\".to_string()\n                    } else {", "C06.dir"),
 ("C07", "seen-hoisted", "src/validators/keep_unique.rs", [("        for (file_path, file_blocks) in &context.blocks {\n            for block_with_context in &file_blocks.blocks_with_context {\n                if !block_with_context", "        for (file_path, file_blocks) in &context.blocks {\n            let mut seen: HashSet<&str> = HashSet::new();\n            for block_with_context in &file_blocks.blocks_with_context {\n                if !block_with_context"), ("                let mut seen: HashSet<&str> = HashSet::new();\n                for (line_number, line)", "                for (line_number, line)")], None, "SH.state"),
 ("C07", "whole-match-first", "src/validators/keep_unique.rs", "                                if let Some(m) = c.name(\"value\") {", "                                if let Some(m) = c.get(0) {", "C07.key"),
 ("C07", "insert-polarity", "src/validators/keep_unique.rs", "                        && !seen.insert(matched_line)", "                        && seen.insert(matched_line)", "C07.seen"),
 ("C08", "raw-line", "src/validators/line_pattern.rs", "                    if !re.is_match(trimmed_line) {", "                    if !re.is_match(line) {", "C08.arg"),
 ("C08", "blank-breaks", "src/validators/line_pattern.rs", "                    if trimmed_line.is_empty() {\n                        continue;\n                    }", "                    if trimmed_line.is_empty() {\n                        break;\n                    }", "C08.blank"),
 ("C08", "no-break", "src/validators/line_pattern.rs", "                                line_character_end,\n                            )?);\n                        break;", "                                line_character_end,\n                            )?);", "C08.first"),
 ("C08", "match-polarity", "src/validators/line_pattern.rs", "                    if !re.is_match(trimmed_line) {", "                    if re.is_match(trimmed_line) {", "C08.polarity"),
 ("C09", "le-as-lt", "src/validators/line_count.rs", "                    Op::Le => actual <= expected,", "                    Op::Le => actual < expected,", "C09.ops"),
 ("C09", "lt-before-le", "src/validators/line_count.rs", "    let (op, rest) = if let Some(r) = trimmed.strip_prefix(\"<=\") {\n        (Op::Le, r)\n    } else if let Some(r) = trimmed.strip_prefix(\">=\") {", "    let (op, rest) = if let Some(r) = trimmed.strip_prefix('<') {\n        (Op::Lt, r)\n    } else if let Some(r) = trimmed.strip_prefix(\"<=\") {\n        (Op::Le, r)\n    } else if let Some(r) = trimmed.strip_prefix(\">=\") {", "C09.ops"),
 ("C09", "data-swapped", "src/validators/line_count.rs", "        Some(serde_json::to_value(LineCountViolation {\n            actual,\n            op: operation.as_str().to_string(),\n            expected,", "        Some(serde_json::to_value(LineCountViolation {\n            actual: expected,\n            op: operation.as_str().to_string(),\n            expected: actual,", "C09.data"),
 ("C09", "count-all-lines", "src/validators/line_count.rs", "                        .lines()\n                        .filter(|line| !line.trim().is_empty())\n                        .count()", "                        .lines()\n                        .count()", "C09.count"),
 ("C09", "operands-swapped", "src/validators/line_count.rs", "                    Op::Ge => actual >= expected,", "                    Op::Ge => expected >= actual,", "C09.ops"),
 ("C09", "print-wrong", "src/validators/line_count.rs", "            Op::Ge => \">=\",", "            Op::Ge => \">\",", "C09.ops"),
 ("C10", "range-swapped", "src/validators/line_count.rs", "            block.start_tag_position_range.start().clone(),\n            block.start_tag_position_range.end().clone(),", "            block.start_tag_position_range.end().clone(),\n            block.start_tag_position_range.start().clone(),", "C10.tag"),
 ("C10", "tag-end-line-base", "src/blocks.rs", "        (content_start.line + content_line_index, character_offset)", "        (self.start_tag_position_range.end().line + content_line_index, character_offset)", "C10.line"),
 ("C10", "no-col0", "src/validators/keep_unique.rs", "let line_character_start = *line_range.start() + character_offset;", "let line_character_start = *line_range.start();", "C10.col0"),
 ("C10", "cols-swapped", "src/validators/keep_sorted.rs", "                Some((m.as_str(), range.start + 1..=range.end))\n            } else if let Some(m) = caps.get(0) {", "                Some((m.as_str(), range.end..=range.start + 1))\n            } else if let Some(m) = caps.get(0) {", "C10.cols"),
 ("C11", "exit-on-not-hint", "src/main.rs", "if diagnostic.severity() == BlockSeverity::Error {", "if diagnostic.severity() != BlockSeverity::Hint {", "C11.exit"),
 ("C11", "requeue-detected", "src/validators/mod.rs", "                    Some(ValidatorType::Sync(validator)) => {\n                        sync_validators.push(validator);", "                    Some(ValidatorType::Sync(validator)) => {\n                        undetected.push(detector);\n                        sync_validators.push(validator);", "C11.once"),
 ("C11", "default-warning", "src/blocks.rs", "            .map_or(Ok(BlockSeverity::Error), |s| {", "            .map_or(Ok(BlockSeverity::Warning), |s| {", "C11.sev"),
 ("C11", "stdout-report", "src/main.rs", "    let mut stderr = std::io::stderr().lock();\n    serde_json::to_writer_pretty(&mut stderr, &diagnostics)?;", "    let mut stderr = std::io::stderr().lock();\n    serde_json::to_writer_pretty(std::io::stdout(), &diagnostics)?;", "C11.out"),
 ("C11", "async-merge-insert", "src/validators/mod.rs", "    for (file_path, file_violations) in async_violations {\n        violations\n            .entry(file_path)\n            .or_insert_with(Vec::new)\n            .extend(file_violations);\n    }", "    for (file_path, file_violations) in async_violations {\n        violations.insert(file_path, file_violations);\n    }", "SH.merge"),
 ("C12", "empty-stack-continue", "src/block_parser.rs", "                } else {\n                    return Err(anyhow::anyhow!(\n                        \"Unexpected closed block at line {}, position {}\",\n                        block_end.comment.position_range.start.line,\n                        block_end.comment.source_range.start + block_end.start_position\n                    ));\n                }", "                } else {\n                    continue;\n                }", "C12.stack"),
 ("C12", "swallow-parse-error", "src/blocks.rs", "        let file_blocks_opt = parse_file(\n            file_path.as_path(),\n            line_changes.as_slice(),\n            BlocksFilter::ModifiedOnly,\n            file_system,\n            &parsers,\n            &extra_file_extensions,\n        )?;", "        let file_blocks_opt = parse_file(\n            file_path.as_path(),\n            line_changes.as_slice(),\n            BlocksFilter::ModifiedOnly,\n            file_system,\n            &parsers,\n            &extra_file_extensions,\n        )\n        .unwrap_or(None);", "SH.err"),
 ("C12", "no-leftover-check", "src/block_parser.rs", "    if let Some(unclosed_block) = block_starts.pop() {", "    if let Some(unclosed_block) = block_starts.pop()\n        && blocks.is_empty()\n    {", "C12.stack"),
 ("C13", "severity-default", "src/validators/line_count.rs", "        block.severity()?,\n        Some(serde_json::to_value(LineCountViolation {", "        block.severity().unwrap_or(crate::blocks::BlockSeverity::Error),\n        Some(serde_json::to_value(LineCountViolation {", "SH.err"),
 ("C13", "regex-if-let-ok", "src/validators/keep_unique.rs", "                        Some(Err(e)) => {\n                            // Invalid regex: return an error for the validator\n                            return Err(anyhow::anyhow!(", "                        Some(Err(_)) if line.is_empty() => None,\n                        Some(Err(e)) => {\n                            // Invalid regex: return an error for the validator\n                            return Err(anyhow::anyhow!(", "SH.err"),
 ("C13", "join-continue", "src/validators/mod.rs", "            Ok(Err(e)) => return Err(e),\n            Err(e) => return Err(anyhow::anyhow!(\"Failed to run validation: {e:?}\")),", "            Ok(Err(_)) => continue,\n            Err(e) => return Err(anyhow::anyhow!(\"Failed to run validation: {e:?}\")),", "SH.err"),
 ("C13", "empty-path-ok", "src/validators/check_lua.rs", "                    if script_path.trim().is_empty() {\n                        return Err(anyhow!(", "                    if script_path.trim().is_empty() && script_path.len() > 64 {\n                        return Err(anyhow!(", "C13.sites"),
 ("C14", "factories-swapped", "src/validators/mod.rs", "    (\"line-count\", || Box::new(LineCountValidatorDetector::new())),\n    (\"check-ai\", || Box::new(CheckAiValidatorDetector::new())),", "    (\"line-count\", || Box::new(CheckAiValidatorDetector::new())),\n    (\"check-ai\", || Box::new(LineCountValidatorDetector::new())),", "C14.names"),
 ("C14", "args-swapped", "src/main.rs", "        &args.disabled_validators(),\n        &args.enabled_validators(),", "        &args.enabled_validators(),\n        &args.disabled_validators(),", "C14.filter"),
 ("C14", "enabled-negated", "src/validators/mod.rs", "                enabled_validators.contains(validator_name)\n            } else {", "                !enabled_validators.contains(validator_name)\n            } else {", "C14.filter"),
 ("C14", "no-requeue", "src/validators/mod.rs", "            validator_detectors.extend(undetected);", "            let _ = undetected;", "C14.once"),
 ("C14", "both-flags-ok", "src/flags.rs", "        if !self.disabled_validators.is_empty() && !self.enabled_validators.is_empty() {", "        if !self.disabled_validators.is_empty() && !self.enabled_validators.is_empty() && self.globs.is_empty() {", "C14.reject"),
 ("C15", "ignore-after-parse", "src/blocks.rs", "    for (file_path, line_changes) in line_changes_by_file {\n        if path_checker.should_ignore(&file_path) {\n            // Not calling `path_checker.should_allow()` because all the files in the\n            // `line_changes_by_file` are implicitly allowed.\n            continue;\n        }", "    for (file_path, line_changes) in line_changes_by_file {", "C15.ignore"),
 ("C15", "root-is-cwd", "src/main.rs", "    let root_path = repository_root_path(fs::canonicalize(env::current_dir()?)?)?;", "    let root_path = fs::canonicalize(env::current_dir()?)?;", "C15.root"),
 ("C15", "allow-ignore-swapped", "src/main.rs", "    let path_checker = blocks::PathCheckerImpl::new(glob_set, args.ignored_globs()?);", "    let path_checker = blocks::PathCheckerImpl::new(args.ignored_globs()?, glob_set);", "C15.checker"),
 ("C16", "read-before-lookup", "src/blocks.rs", "    let parser = match parser_for_file_path(file_path, parsers, extra_file_extensions) {\n        None => return Ok(None),\n        Some(p) => p,\n    };\n    let source_code = file_reader.read_to_string(file_path)?;", "    let source_code = file_reader.read_to_string(file_path)?;\n    let parser = match parser_for_file_path(file_path, parsers, extra_file_extensions) {\n        None => return Ok(None),\n        Some(p) => p,\n    };", "C16.known"),
 ("C16", "ts-is-tsx", "src/language_parsers/mod.rs", "        (\"ts\".into(), typescript_parser),\n        (\"tsx\".into(), typescript_tsx_parser),", "        (\"ts\".into(), Rc::clone(&typescript_tsx_parser)),\n        (\"tsx\".into(), typescript_tsx_parser),", "C16.shadow"),
 ("C16", "validate-keys-not-values", "src/flags.rs", "            if !supported_extensions.contains(&OsString::from(val)) {", "            if !supported_extensions.contains(&OsString::from(val)) && !supported_extensions.contains(&OsString::from(key)) {", "C16.validate"),
 ("C17", "os-in-default", "src/validators/check_lua.rs", "StdLib::COROUTINE | StdLib::TABLE | StdLib::STRING | StdLib::UTF8 | StdLib::MATH,", "StdLib::COROUTINE | StdLib::TABLE | StdLib::STRING | StdLib::UTF8 | StdLib::MATH | StdLib::OS,", "C17.globals"),
 ("C17", "arms-swapped", "src/validators/check_lua.rs", "        \"unsafe\" => unsafe { Lua::unsafe_new() },\n        \"safe\" => Lua::new(),", "        \"safe\" => unsafe { Lua::unsafe_new() },\n        \"unsafe\" => Lua::new(),", "C17.globals"),
 ("C17", "new-in-runner", "src/validators/check_lua.rs", "    let lua = lua_from_env();\n\n    let script_content", "    let lua = if script_path.ends_with(\".trusted.lua\") { Lua::new() } else { lua_from_env() };\n\n    let script_content", "C17.who"),
 ("C17", "case-insensitive-mode", "src/validators/check_lua.rs", "    match std::env::var(LUA_STDLIB_ENV_VAR)\n        .as_deref()\n        .unwrap_or(\"sandboxed\")\n    {", "    match std::env::var(LUA_STDLIB_ENV_VAR)\n        .unwrap_or(\"sandboxed\".to_string())\n        .to_lowercase()\n        .as_str()\n    {", "C17.mode"),
 ("C18", "collector-continue", "src/validators/check_lua.rs", "            match task_result.context(\"check-lua task failed\")? {\n                Ok(None) => continue,", "            let Ok(task_result) = task_result else { continue };\n            match task_result {\n                Ok(None) => continue,", "SH.err"),
 ("C18", "no-attrs", "src/validators/check_lua.rs", "    for (key, value) in &block_with_context.block.attributes {\n        attrs_table\n            .set(key.as_str(), value.as_str())\n            .with_context(|| format!(\"failed to set attr {key}\"))?;\n    }", "", "C18.ctx"),
 ("C18", "bool-false-pass", "src/validators/check_lua.rs", "        mlua::Value::Nil => Ok(None),", "        mlua::Value::Nil | mlua::Value::Boolean(false) => Ok(None),", "C18.result"),
 ("C18", "line-is-end", "src/validators/check_lua.rs", "            \"line\",\n            block_with_context\n                .block\n                .start_tag_position_range\n                .start()\n                .line,", "            \"line\",\n            block_with_context\n                .block\n                .start_tag_position_range\n                .end()\n                .line,", "C18.ctx"),
 ("C18", "untrimmed-content", "src/validators/check_lua.rs", "    } else {\n        block_with_context.block.content(file_content).trim()\n    };\n    Ok(content)\n}\n\npub(crate) struct CheckLuaValidatorDetector;", "    } else {\n        block_with_context.block.content(file_content)\n    };\n    Ok(content)\n}\n\npub(crate) struct CheckLuaValidatorDetector;", "C18.content"),
 ("C19", "request-error-passes", "src/validators/check_ai.rs", "            .await\n            .context(\"OpenAI API request failed\")?;", "            .await;\n        let Ok(resp) = resp else { return Ok(None) };", "SH.err"),
 ("C19", "ok-prefix", "src/validators/check_ai.rs", "message.eq_ignore_ascii_case(\"OK\") || message.eq_ignore_ascii_case(\"OK.\")", "message.eq_ignore_ascii_case(\"OK\") || message.to_ascii_uppercase().starts_with(\"OK\")", "C19.reply"),
 ("C19", "default-key-none", "src/validators/check_ai.rs", "std::env::var(API_KEY_ENV_VAR_NAME).unwrap_or(\"\".into());", "std::env::var(API_KEY_ENV_VAR_NAME).unwrap_or(\"none\".into());", "C19.env"),
 ("C19", "url-key-swapped", "src/validators/check_ai.rs", "            .with_api_base(api_base)\n            .with_api_key(api_key);", "            .with_api_base(api_key)\n            .with_api_key(api_base);", "C19.env"),
 ("C19", "debug-format", "src/validators/check_ai.rs", "format!(\"CONDITION:\\n{condition}\\n\\nBLOCK (formatting preserved):\\n{block_content}\");", "format!(\"CONDITION:\\n{condition}\\n\\nBLOCK (formatting preserved):\\n{block_content:?}\");", "C19.request"),
 ("C20", "first-file-only", "src/main.rs", "        diagnostics.insert(file_path, file_diagnostics);\n    }", "        diagnostics.insert(file_path, file_diagnostics);\n        if has_error_severity {\n            break;\n        }\n    }", "C20.first"),
 ("C20", "reuse-tree", "src/language_parsers/mod.rs", "let tree = self.parser.parse(source_code, None).unwrap();", "let tree = self.parser.parse(source_code, self.tree.as_ref()).unwrap();", "C20.parser"),
 ("C20", "time-source", "src/validators/mod.rs", "    let mut sync_validators = Vec::new();\n    let mut async_validators = Vec::new();\n    'outer:", "    let mut sync_validators = Vec::new();\n    let mut async_validators = Vec::new();\n    if std::time::SystemTime::now().elapsed().is_err() {\n        validator_detectors.reverse();\n    }\n    'outer:", "C20.ambient"),
 ("C20", "values-next", "src/validators/mod.rs", "    'outer: for file_blocks in context.blocks.values() {", "    'outer: for file_blocks in context.blocks.values().next() {", "C20."),
]


def main():
    only = set(sys.argv[1:])
    ok = 0
    for prop, name, path, old, new, expect in M:
        if only and prop not in only:
            continue
        src = open(os.path.join(REPO, path)).read()
        pairs = old if isinstance(old, list) else [(old, new)]
        mutated = src
        bad = False
        for o, nw in pairs:
            cnt = mutated.count(o)
            if cnt != 1:
                print("SKIP %s/%s: pattern occurs %d times in %s" % (prop, name, cnt, path))
                bad = True
                break
            mutated = mutated.replace(o, nw)
        if bad:
            continue
        d = os.path.join(OUT, prop)
        os.makedirs(d, exist_ok=True)
        with tempfile.TemporaryDirectory() as td:
            a = os.path.join(td, "a", path)
            b = os.path.join(td, "b", path)
            os.makedirs(os.path.dirname(a))
            os.makedirs(os.path.dirname(b))
            open(a, "w").write(src)
            open(b, "w").write(mutated)
            r = subprocess.run(["diff", "-u", "--label", "a/" + path, "--label", "b/" + path, a, b], capture_output=True, text=True)
        with open(os.path.join(d, name + ".patch"), "w") as f:
            f.write("# property=%s expect=%s\n" % (prop, expect))
            f.write(r.stdout)
        ok += 1
    print("%d mutants written" % ok)


main()
