#!/bin/bash
# usage: seedrun.sh <patch.diff> <ID> [<ID>...]   — applies the patch to a scratch worktree and runs the checks against it
PATCH=$1; shift
WT=${WT:-/var/tmp/seedrun/wt}
if [ ! -d $WT ]; then mkdir -p /var/tmp/seedrun; git -C /repo worktree add --detach $WT HEAD -q; fi
cd $WT && git checkout -q -- . && git clean -fdq && git checkout -q --detach $(git -C /repo rev-parse HEAD)
git apply $PATCH || { echo "PATCH DOES NOT APPLY"; exit 3; }
cd /verif
for id in "$@"; do BW_EVIDENCE_DIR=/var/tmp/seedrun/evidence BW_REPO=$WT ./check $id | grep -E "^(VIOLATION|  rule=|C[0-9]+:|KNOWN|check:)" ; done
cd $WT && git checkout -q -- . && git clean -fdq
