#!/usr/bin/env python3
"""One-off generator of spec/panic_sites.json (keys: <file>|<kind>|<coarse shape>, with the number of
reviewed sites of that shape): assigns a discharge (class + reason) to every site
of the census on the tree it is run on, by the hand-written patterns below; sites no pattern covers
are printed and NOT written (they need a decision). The resulting file is frozen and reviewed; the
check never writes it."""
import sys, glob, os, re, json
sys.path.insert(0, '/verif')
from engine.core import Ctx
from engine import census

RULES = [
 # (regex on key, class, reason)
 (r"PartialBlocksIterator<I> as std::iter::Iterator>::next\|unwrap\|as_ref\(v\.comment\)", "invariant", "self.comment is assigned Some(..) (or the function returns) at the top of the same loop iteration before this read"),
 (r"CommentsParser>::parse\|unwrap\|parse\(v\.parser\)|parse_html_comments\|unwrap\|parse\(", "dependency-contract", "tree_sitter::Parser::parse returns None only without a language, after a timeout or when cancelled; a language is always set in the constructor and neither timeout nor cancellation flag is configured (C20.parser checks no parser state is changed)"),
 (r"CommentsParser>::parse\|unwrap\|as_ref\(v\.tree\)", "invariant", "self.tree was assigned Some(tree) by the statement directly before"),
 (r"BlockTagParser>::next\|index-str\|v\.source\[RangeFrom", "invariant", "cursor < source.len() is checked on entry; cursor only ever holds the end offset of a parsed tag (after the ASCII `>`) or source.len(), both char boundaries"),
 (r"BlockTagParser>::next\|index-str\|v\[RangeFrom", "invariant", "the offset is the result of find(\"<\") on the same string: in bounds and on a char boundary"),
 (r"BlockTagParser>::next\|index-str\|index\(v\)\[RangeFrom", "invariant", "skips exactly the one-byte ASCII `<` found by find: in bounds and on a char boundary"),
 (r"BlockTagParser>::next\|overflow-Sub\|len\(index\(v\)\),len\(parse_peek", "dependency-contract", "winnow's parse_peek returns the unconsumed suffix of its input, so remaining.len() <= input.len()"),
 (r"validate::\{closure#0\}::\{closure#0\}\|index-map\|deref\(v\)\.blocks\[v\]", "invariant", "the key was cloned from an entry of the same (immutable, Arc-shared) map when the task was spawned"),
 (r"validate::\{closure#0\}::\{closure#0\}\|index-slice\|index\(deref\(v\)\.blocks\)\.blocks_with_context\[v\]", "invariant", "the index comes from enumerate() over this very vector, which is immutable behind the Arc"),
 (r"validate::\{closure#0\}::\{closure#0\}\|index-map\|.*attributes\['check-(ai|lua)'\]", "invariant", "a task is spawned only when attributes.get(\"check-…\") returned Some for this block (C18.once / C19.once check the guard)"),
 (r"\|overflow-Sub\|as_ptr\(trim\(", "invariant", "the trimmed text is a sub-slice of the line, so its start pointer is not below the line's"),
 (r"\|overflow-Sub\|Add\(Add\((Add\()?Sub\(as_ptr\(trim\(", "invariant", "start + len - 1 with len >= 1: this branch is only taken for a non-empty trimmed line"),
 (r"BlockStart::new\|overflow-Sub\|v\.end,1", "invariant", "a parsed start tag is at least `<block>` long, so its range end is >= 7"),
 (r"source_position_at\|index-(slice|str)\|v\.comment_text\[RangeTo", "invariant", "the offset is that of the tag's ASCII `<` or `>` inside comment_text (or one past it): in bounds and on a char boundary"),
 (r"source_position_at\|overflow-Sub\|Add\(v\.start\.line,count\(lines", "invariant", "lines() of a non-empty prefix (it contains at least the tag's first byte) yields at least one line"),
 (r"source_position_at\|overflow-Sub\|v,unwrap_or\(rfind", "invariant", "rfind runs on the prefix [..offset], so its result is < offset"),
 (r"Block::content\|index-str", "dependency-contract", "content_bytes_range is built from tree-sitter node byte offsets of the same source text (char boundaries) with start comment before end comment, or is 0..0"),
 (r"_intersects_with_any\|index-slice\|v\[RangeFrom", "std-contract", "partition_point returns an index <= len"),
 (r"intersects_with_line_change(_inclusive)?\|overflow-Sub\|.*character,1", "invariant", "Position.character is 1-based: it is only ever written as column + 1 or as an offset difference that is >= 1"),
 (r"to_serializable_report\|unwrap\|to_value\(", "std-contract", "json! on &str / usize / bool / HashMap<String,String>: serde_json::to_value cannot fail for these types"),
 (r"to_serializable_report::\{closure#0\}\|index-json", "std-contract", "Index<&str> for serde_json::Value returns Null for a missing key; it does not panic"),
 (r"parse_file\|std:borrow_mut", "invariant", "the RefCell of a language parser is borrowed only here, for the duration of one parse() call, single-threaded and not re-entrant"),
 (r"parser_for_file_path\|index-str", "invariant", "i is the byte index of an ASCII `.` found by match_indices; i + 1 is in bounds and a char boundary"),
 (r"fold_deleted_lines\|unwrap\|pop_front\(v\)\.0\.source_line_no", "dependency-contract", "unidiff sets source_line_no on every removed line; only removed lines are queued"),
 (r"line_changes\|unwrap\|.*target_line_no", "dependency-contract", "unidiff sets target_line_no on every added line; this branch is taken for added lines only"),
 (r"line_diff\|overflow-Sub\|len\(collect\(chain", "invariant", "the offset table always has the trailing new.len() entry, so its length is >= 1"),
 (r"line_diff\|index-slice\|collect\(chain\(map\(char_indices", "dependency-contract", "similar's DiffOp new_index / new_index + new_len are <= the number of characters of `new`, and the table has one entry per character plus one; the clamped Delete index is < chars_count by the guard"),
 (r"push_or_merge_range\|overflow-Sub\|len\(v\),1", "invariant", "executed right after ranges.push(..), so len >= 1"),
 (r"push_or_merge_range\|(index-slice|overflow-Sub|std:swap)", "invariant", "guarded by the loop condition i > 0 with i < len: i and i - 1 are valid indices"),
 (r"TreeSitterCommentsParser::new\|expect\|set_language|MdParser::<C>::new\|expect\|set_language|MdParser::<C>::new\|unwrap\|new\(into", "input-independent", "executed once at start-up with constants (grammar, query text); fails for every input or for none, and the test-suite starts the binary"),
 (r"language_parsers::.*\|index-str\|v\[byte_range\(v\)\]|c_style_comments_parser::\{closure#0\}\|unwrap\|get\(v\)|parse_html_comments\|index-str\|v\[Range\{\}\]", "dependency-contract", "tree-sitter reports node byte ranges inside the parsed UTF-8 text and on char boundaries"),
 (r"c_style_multiline_comment_processor\|index-str", "invariant", "all offsets come from find/rfind of ASCII delimiters in the same string (close >= open + 2 is enforced by the filter; a missing terminator falls back to len) or from find of a non-whitespace char that is checked to be the one-byte `*`"),
 (r"markdown_comments_parser::\{closure#0\}\|index-str", "invariant", "offsets come from find/rfind of ASCII delimiters in the same string (`[//]:` is 5 bytes; the title delimiter is one byte; close > open is enforced by the filter and close + 1 < len is tested)"),
 (r"markdown_comments_parser::\{closure#0\}\|overflow-Sub", "invariant", "open_idx was found in the slice starting at prefix_idx + 5, so open_idx >= prefix_idx + 5"),
 (r"markdown_comments_parser::\{closure#0\}\|std:repeat", "invariant", "repeats a one-byte string at most comment.len() times"),
 (r"xml_style_comments_parser::\{closure#0\}\|expect\|(find|rfind)\(index\(v\)\)", "dependency-contract", "the html / xml grammars' external scanners emit a `comment` / `Comment` node only for text of the form <!-- … -->, so both delimiters are present (two dozen degenerate inputs confirmed this; see DESIGN.md §5 D5)"),
 (r"xml_style_comments_parser::\{closure#0\}\|index-str\|index\(v\)\[", "dependency-contract", "offsets of the ASCII delimiters `<!--` / `-->` found in the same string; the scanner contract gives open + 4 <= close"),
 (r"check_ai::create_violation\|expect\|get\(v\.attributes\)", "invariant", "create_violation is only reached for blocks for which a task was spawned, i.e. which have the check-ai attribute"),
 (r"lua_from_env\|expect\|new_with", "dependency-contract", "Lua::new_with fails only when DEBUG / FFI is requested in a safe state; C17 derives the flag set and checks it contains neither"),
 (r"lua_from_env\|expect\|set\(globals", "dependency-contract", "assigning nil to a global of a fresh state cannot fail (no metatable on _G, no memory limit configured)"),
 (r"validators::run(_sync_validators)?\|std:spawn", "os-failure", "std::thread::spawn panics only if the OS cannot create a thread; not input dependent"),
 (r"validators::run(_sync_validators)?\|std:join", "std-contract", "JoinHandle::join returns Err for a panicked thread; it does not panic itself (the Err is propagated, C13.join)"),
 (r"run_async_validators\|std:block_on", "invariant", "block_on is called from a plain OS thread, never from inside a runtime"),
]

os.system('cd /verif && ./check C04 > /dev/null')   # refreshes .cache/facts/cur.* (facts of /repo itself)
c = Ctx()
S = census.sites(c, c.reachable_bodies())
table = {}
un = []
sys.path.insert(0, '/verif')
from rules.C04 import auto_discharge
for s in S:
    if s['kind'] == 'overflow-Add':
        continue
    ad = auto_discharge(c, s)
    if ad:
        # discharged by a contract rule: remembered per shape (count 0 + `auto`), so that the same access
        # written in a way the rule does not recognise any more keeps a slot
        e = table.setdefault(s['ckey'], {"class": ad[0], "reasons": [ad[1]], "count": 0, "sites": [], "auto": 0})
        e["auto"] = e.get("auto", 0) + 1
        e["sites"].append(s['key'].split("|")[0])
        continue
    for rx, cls, reason in RULES:
        if re.search(rx, s['key']):
            e = table.setdefault(s['ckey'], {"class": cls, "reasons": [], "count": 0, "sites": [], "auto": 0})
            e["count"] += 1
            if reason not in e["reasons"]:
                e["reasons"].append(reason)
            e["sites"].append(s['key'].split("|")[0])
            if e["class"] != cls:
                e["class"] = e["class"] + "+" + cls if cls not in e["class"] else e["class"]
            break
    else:
        un.append(s['key'])
print(len(table), "keys discharged;", len(un), "sites without a pattern")
for u in un: print("  ", u)
if not un or '--force' in sys.argv:
    for e in table.values():
        e["reason"] = " / ".join(e.pop("reasons"))
        e["sites"] = sorted(set(e["sites"]))
    json.dump(table, open('/verif/spec/panic_sites.json', 'w'), indent=1, sort_keys=True)
    print("written")
